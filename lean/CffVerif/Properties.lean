/-
  The property theorems, and nothing else.  Helper lemmas live in the other modules.
  Every theorem here is audited with `#print axioms` on every run (Audit.lean is generated
  from /verif/theorems.json).  "S-run" hypotheses: a standard-wiring configuration `c`, an
  arbitrary action list `acts` (= arbitrary interleaving of caller, loop, workers, cancellation,
  with arbitrary job outcomes) and the state `s` it leads to from `init c`.
-/
import CffVerif.Sched.Simple
import CffVerif.Sched.LogInv
import CffVerif.Sched.ReportInv
import CffVerif.Sched.Progress
import CffVerif.Sched.Measure

namespace Sched

/-! ### C01 — no job before its dependencies succeeded; never twice -/

/-- Whenever a job's body starts, every dependency it names (duplicates, any fan-in, registered
    before or after the dependency finished) has already **ended without error** — for every DAG,
    every `N ≥ 1`, both error modes, every pacing and interleaving. -/
theorem C01_deps_before_start (c : Cfg) (hw : c.wiring = Wiring.std) (hwf : WfCfg c)
    (acts : List Act) (s : State) (hr : run c (init c) acts = some s) (i j : Nat)
    (hi : s.log[i]? = some (Ev.started j)) :
    ∀ d ∈ c.depsOf j, ∃ k, k < i ∧ s.log[k]? = some (Ev.ended d .ok) :=
  (allInv_run hw hwf acts s hr).i3.depsBefore i j hi

/-- No job body is started more than once. -/
theorem C01_at_most_once (c : Cfg) (hw : c.wiring = Wiring.std) (hwf : WfCfg c)
    (acts : List Act) (s : State) (hr : run c (init c) acts = some s) (j : Nat) :
    s.log.count (Ev.started j) ≤ 1 :=
  (allInv_run hw hwf acts s hr).i3.once j

/-- Non-vacuity: a diamond with a duplicated dependency, job 3 enqueued after job 1 already
    finished (the "dependency already done" branch), run to the start of job 3 on two workers. -/
example :
    let c : Cfg := { N := 2, coe := false, emit := false, deps := [[], [0], [0, 0], [1, 2, 1]] }
    ∃ s, run c (init c)
      [.callerSend, .loopEnq, .callerSend, .loopEnq, .callerSend, .loopEnq,
       .loopDispatch 0, .workerDecide 0, .workerEnd 0 .ok false, .workerPost 0, .loopResult,
       .loopDispatch 0, .loopDispatch 1, .workerDecide 0, .workerDecide 1,
       .workerEnd 0 .ok false, .workerPost 0, .loopResult,
       .callerSend, .loopEnq,
       .workerEnd 1 .ok false, .workerPost 1, .loopResult,
       .loopDispatch 1, .workerDecide 1] = some s
      ∧ s.log.getLast? = some (Ev.started 3) ∧ wfCfgB c = true := by
  decide

/-- Without the worker's `invalid` check a job runs although its dependency failed
    (ContinueOnError): the flag matters, the theorem is not vacuous. -/
example :
    let c : Cfg := { N := 1, coe := true, emit := false, deps := [[], [0]],
                     wiring := { workerChecksInvalid := false } }
    ∃ s, run c (init c)
      [.callerSend, .loopEnq, .callerSend, .loopEnq, .loopDispatch 0, .workerDecide 0,
       .workerEnd 0 (.fail 7) false, .workerPost 0, .loopResult, .loopDispatch 0, .workerDecide 0] = some s
      ∧ s.log.getLast? = some (Ev.started 1) ∧ Ev.ended 0 .ok ∉ s.log := by
  decide

/-! ### C03 — bounded concurrency -/

def W.isRunning : W → Bool
  | .running _ => true
  | _ => false

/-- There are exactly `N` worker slots in every reachable state … -/
theorem C03_worker_slots (c : Cfg) (acts : List Act) (s : State)
    (hr : run c (init c) acts = some s) : s.ws.length = c.N := by
  refine run_induct (c := c) (fun s => s.ws.length = c.N) ?_ acts _ _ (by simp [init]) hr
  intro s a s' hp h
  rw [step_ws_length h]; exact hp

/-- … hence at most `N` job bodies execute at any instant, for every graph, mode and schedule. -/
theorem C03_at_most_N_running (c : Cfg) (acts : List Act) (s : State)
    (hr : run c (init c) acts = some s) : (s.ws.filter W.isRunning).length ≤ c.N := by
  have := C03_worker_slots c acts s hr
  exact this ▸ List.length_filter_le _ _

/-- `Concurrency: 0` means `max(GOMAXPROCS, 4)`. -/
def defaultConc (gomaxprocs : Nat) : Nat := if gomaxprocs < 4 then 4 else gomaxprocs
theorem C03_default (g : Nat) : defaultConc g = max g 4 := by
  unfold defaultConc; split <;> omega

/-! ### C09 — cancellation -/

/-- No job is started after the context was cancelled, in either error mode:
    in every log, every `started` event precedes every `cancelled` event. -/
theorem C09_no_start_after_cancel (c : Cfg) (hw : c.wiring = Wiring.std) (acts : List Act) (s : State)
    (hr : run c (init c) acts = some s) (i k j : Nat)
    (hi : s.log[i]? = some Ev.cancelled) (hk : s.log[k]? = some (Ev.started j)) : k < i := by
  have inv : CancelInv s :=
    run_induct (c := c) CancelInv (fun s a s' hp h => cancelInv_step hw hp h) acts _ _ (cancelInv_init c) hr
  exact inv.clean i k _ hi hk (by simp [Bad])

/-- `Wait` never returns nil at an instant where the context is already cancelled. -/
theorem C09_nil_implies_not_cancelled (c : Cfg) (hw : c.wiring = Wiring.std) (acts : List Act) (s : State)
    (hr : run c (init c) acts = some s) (i k : Nat)
    (hi : s.log[i]? = some Ev.cancelled) (hk : s.log[k]? = some (Ev.waitReturned [])) : k < i := by
  have inv : CancelInv s :=
    run_induct (c := c) CancelInv (fun s a s' hp h => cancelInv_step hw hp h) acts _ _ (cancelInv_init c) hr
  exact inv.clean i k _ hi hk (by simp [Bad])

/-- Non-vacuity: a run in which a job starts, the context is cancelled, and a second job is skipped. -/
example :
    let c : Cfg := { N := 1, coe := true, emit := false, deps := [[], []] }
    ∃ s, run c (init c) [.callerSend, .loopEnq, .callerSend, .loopEnq, .loopDispatch 0, .workerDecide 0,
        .cancel, .workerEnd 0 .ok false, .workerPost 0, .loopResult, .loopDispatch 0, .workerDecide 0] = some s
      ∧ Ev.started 0 ∈ s.log ∧ Ev.cancelled ∈ s.log ∧ Ev.skipped 1 .ctx ∈ s.log := by
  decide

/-- Without the worker's context check a job does start after cancellation (the flag matters). -/
example :
    let c : Cfg := { N := 1, coe := false, emit := false, deps := [[]],
                     wiring := { workerChecksCtx := false } }
    ∃ s, run c (init c) [.cancel, .callerSend, .loopEnq, .loopDispatch 0, .workerDecide 0] = some s
      ∧ s.log.getLast? = some (Ev.started 0) ∧ Ev.cancelled ∈ s.log := by
  decide


/-! ### C19 — state reports -/

theorem inv4_run {c : Cfg} (hw : c.wiring = Wiring.std) (hwf : WfCfg c) (acts : List Act) (s : State)
    (hr : run c (init c) acts = some s) : Inv1 c s ∧ Inv4 c s := by
  refine run_induct (c := c) (fun s => Inv1 c s ∧ Inv4 c s) ?_ acts _ _ ⟨inv1_init c, inv4_init c⟩ hr
  intro s a s' hp h
  exact ⟨inv1_step hw hwf hp.1 h, inv4_step hw hwf hp.1 hp.2 h⟩

/-- Every state report ever emitted satisfies: all fields non-negative;
    `Pending = Ready + Waiting + executing` with `0 ≤ executing ≤ Concurrency`;
    `IdleWorkers = Concurrency − executing`; `Concurrency` is the configured limit;
    `Pending ≤` number of jobs submitted before the report; `Waiting ≤` number of those that
    name a dependency.  For every DAG, worker count, mode, and every instant the ticker fires. -/
theorem C19_report_consistent (c : Cfg) (hw : c.wiring = Wiring.std) (hwf : WfCfg c)
    (acts : List Act) (s : State) (hr : run c (init c) acts = some s) (i : Nat) (st : Report)
    (hi : s.log[i]? = some (Ev.report st)) :
    GoodReport c ((s.log.take i).filterMap Ev.sentId).length st :=
  (inv4_run hw hwf acts s hr).2.reports i st hi

/-- Reports stop when the loop exits … -/
theorem C19_stop (c : Cfg) (hw : c.wiring = Wiring.std) (hwf : WfCfg c)
    (acts : List Act) (s : State) (hr : run c (init c) acts = some s) (i k : Nat) (st : Report)
    (hi : s.log[i]? = some Ev.loopExit) (hk : s.log[k]? = some (Ev.report st)) : k < i :=
  (inv4_run hw hwf acts s hr).2.stop i k st hi hk

/-- … and `Wait` returns through its finished arm only after the loop has exited
    (so no report follows a normal completion). -/
theorem C19_fin_after_exit (c : Cfg) (s s' : State) (h : step c s .callerRetFin = some s') :
    s.loop.phase = .exited := (inv_callerRetFin h).2.2.1

/-- The executing count is what the gate bounds: without the gate a report with
    `executing = 2 > N = 1` is reachable (this was defect F1 of the unfixed scheduler). -/
example :
    let c : Cfg := { N := 1, coe := false, emit := true, deps := [[], []],
                     wiring := { gateDispatch := false } }
    ∃ s, run c (init c)
      [.callerSend, .loopEnq, .callerSend, .loopEnq, .loopDispatch 0, .workerDecide 0,
       .workerEnd 0 .ok false, .workerPost 0, .loopDispatch 0, .loopTick] = some s
      ∧ s.log.getLast? = some (Ev.report { pending := 2, ready := 0, waiting := 0, idle := 0, concurrency := 1 }) := by
  decide


/-! ### C05 — termination, C06 — no goroutine leak -/

def Act.isTick : Act → Bool
  | .loopTick => true
  | _ => false

/-- **C05 progress.** From every reachable state that is not final — whatever the graph, the failure,
    Goexit and cancellation pattern, `N ≥ 1`, mode, emitter — some action other than the ticker is
    enabled (a running body counts as able to end: the premise that user functions return). In
    particular no reachable state has the caller blocked forever in `Enqueue` or `Wait`. -/
theorem C05_progress (c : Cfg) (hw : c.wiring = Wiring.std) (hwf : WfCfg c)
    (acts : List Act) (s : State) (hr : run c (init c) acts = some s) (hnf : Final s = false) :
    ∃ a, a ≠ Act.loopTick ∧ (step c s a).isSome = true :=
  progress hw hwf (reach_run hw hwf acts s hr) hnf

/-- **C05 measure.** Every non-tick action strictly decreases the natural number `mu`. -/
theorem C05_measure (c : Cfg) (hw : c.wiring = Wiring.std) (hwf : WfCfg c)
    (acts : List Act) (s s' : State) (a : Act) (hr : run c (init c) acts = some s)
    (hs : step c s a = some s') (ha : a ≠ .loopTick) : mu c s' < mu c s :=
  mu_decreases hw hwf (reach_run hw hwf acts s hr) hs ha

/-- **C05 termination.** Any continuation of a reachable state that contains no tick has at most
    `mu c s` actions: there is no infinite execution in which the scheduler keeps working
    without finishing. -/
theorem C05_terminates (c : Cfg) (hw : c.wiring = Wiring.std) (hwf : WfCfg c)
    (acts : List Act) (s : State) (hr : run c (init c) acts = some s) :
    ∀ (more : List Act) (s' : State), (∀ a ∈ more, a.isTick = false) → run c s more = some s' →
      more.length + mu c s' ≤ mu c s := by
  intro more
  induction more generalizing acts s with
  | nil => intro s' _ h; simp [run] at h; subst h; simp
  | cons a as ih =>
    intro s' hnt h
    simp only [run] at h
    cases hs : step c s a with
    | none => simp [hs] at h
    | some s1 =>
      simp [hs] at h
      have ha : a ≠ .loopTick := by
        intro e; have := hnt a (by simp); simp [e, Act.isTick] at this
      have hdec := C05_measure c hw hwf acts s s1 a hr hs ha
      have hr1 : run c (init c) (acts ++ [a]) = some s1 := by
        have : ∀ (xs : List Act) (t : State), run c t (xs ++ [a]) = (run c t xs).bind (fun u => step c u a) := by
          intro xs
          induction xs with
          | nil => intro t; simp [run]
          | cons x xs ihx =>
            intro t; simp only [List.cons_append, run]
            cases step c t x with
            | none => simp
            | some u => simp [ihx]
        rw [this, hr]; simp [hs]
      have := ih (acts ++ [a]) s1 hr1 s' (fun b hb => hnt b (by simp [hb])) h
      simp; omega

/-- **C06.** A reachable state in which nothing but the ticker can happen is `Final`: `Wait` has
    returned, the loop goroutine has exited and **every worker goroutine has exited** — after
    success, fail-fast exit, ContinueOnError, Goexit-ing jobs, cancellation, or `Wait` having
    returned early through its context arm.  With `C05_terminates`, every maximal execution ends
    there, so no scheduler goroutine is left behind. -/
theorem C06_no_stuck_goroutine (c : Cfg) (hw : c.wiring = Wiring.std) (hwf : WfCfg c)
    (acts : List Act) (s : State) (hr : run c (init c) acts = some s)
    (hstuck : ∀ a, a ≠ Act.loopTick → step c s a = none) :
    s.caller.ret.isSome = true ∧ s.loop.phase = .exited ∧ ∀ x ∈ s.ws, x = W.exited := by
  cases hf : Final s with
  | false =>
    obtain ⟨a, ha, hen⟩ := C05_progress c hw hwf acts s hr hf
    rw [hstuck a ha] at hen; simp at hen
  | true =>
    simp only [Final, Bool.and_eq_true, beq_iff_eq, List.all_eq_true] at hf
    exact ⟨hf.1.1, hf.1.2, hf.2⟩

/-- The invariant behind C06: the loop never has more jobs out than workers, so results waiting
    in `donec` plus busy workers never exceed `cap(donec) = N` and a worker can always post. -/
theorem C06_post_never_blocks (c : Cfg) (hw : c.wiring = Wiring.std) (hwf : WfCfg c)
    (acts : List Act) (s : State) (hr : run c (init c) acts = some s) :
    s.ws.countP W.busy + s.donec.length ≤ c.N := by
  have R := reach_run hw hwf acts s hr
  have h1 := R.i1.ongoing
  have h2 := R.i1.gate
  omega

/-- Negation witness (defect F1 of the unfixed scheduler): without the dispatch gate, N = 2 and four
    independent failing jobs in fail-fast mode reach a state where the caller has returned, the
    loop has exited, and a worker is blocked forever posting to the full `donec`. -/
example :
    let c : Cfg := { N := 2, coe := false, emit := false, deps := [[], [], [], []],
                     wiring := { gateDispatch := false } }
    ∃ s, run c (init c)
      [.callerSend, .loopEnq, .callerSend, .loopEnq, .callerSend, .loopEnq, .callerSend, .loopEnq, .callerClose,
       .loopDispatch 0, .loopDispatch 1, .workerDecide 0, .workerDecide 1,
       .workerEnd 0 (.fail 0) false, .workerEnd 1 (.fail 1) false, .workerPost 0, .workerPost 1,
       .loopDispatch 0, .loopDispatch 1, .workerDecide 0, .workerDecide 1,
       .workerEnd 0 (.fail 2) false, .workerEnd 1 (.fail 3) false,
       .loopResult, .loopClose, .callerRetFin, .workerPost 0] = some s
      ∧ s.caller.ret = some [.fail 0] ∧ s.loop.phase = .exited
      ∧ s.ws = [.idle, .posting 3 (.fail 3)] ∧ s.donec.length = 2
      ∧ step c s (.workerPost 1) = none := by
  decide

end Sched
