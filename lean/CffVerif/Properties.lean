/-
  The property theorems, and nothing else.  Helper lemmas live in the other modules.
  Every theorem here is audited with `#print axioms` on every run (Audit.lean is generated
  from /verif/theorems.json).  "S-run" hypotheses: a standard-wiring configuration `c`, an
  arbitrary action list `acts` (= arbitrary interleaving of caller, loop, workers, cancellation,
  with arbitrary job outcomes) and the state `s` it leads to from `init c`.
-/
import CffVerif.Sched.Simple
import CffVerif.Sched.LogInv
import CffVerif.Sched.ReportInv
import CffVerif.Sched.Progress
import CffVerif.Sched.Measure
import CffVerif.Sched.RetInv
import CffVerif.Sched.Own
import CffVerif.Text.BuildTag
import CffVerif.Text.Alias
import CffVerif.Text.Stack
import CffVerif.Text.GenName
import CffVerif.Text.Order
import CffVerif.Gen.BodyThms
import CffVerif.Gen.Topo
import CffVerif.Gen.Cycle
import CffVerif.Gen.Accept
import CffVerif.Gen.Denote
import CffVerif.Gen.Parallel
import CffVerif.Text.Hoist
import CffVerif.Sched.Prompt
import CffVerif.Sched.WorkConsCore
import CffVerif.Gen.Complete
import CffVerif.Text.Splice
import CffVerif.Text.Walker
import CffVerif.Text.Magic
import CffVerif.Text.Hygiene

namespace Sched

/-! ### C01 — no job before its dependencies succeeded; never twice -/

/-- Whenever a job's body starts, every dependency it names (duplicates, any fan-in, registered
    before or after the dependency finished) has already **ended without error** — for every DAG,
    every `N ≥ 1`, both error modes, every pacing and interleaving. -/
theorem C01_deps_before_start (c : Cfg) (hw : c.wiring = Wiring.std) (hwf : WfCfg c)
    (acts : List Act) (s : State) (hr : run c (init c) acts = some s) (i j : Nat)
    (hi : s.log[i]? = some (Ev.started j)) :
    ∀ d ∈ c.depsOf j, ∃ k, k < i ∧ s.log[k]? = some (Ev.ended d .ok) :=
  (allInv_run hw hwf acts s hr).i3.depsBefore i j hi

/-- No job body is started more than once. -/
theorem C01_at_most_once (c : Cfg) (hw : c.wiring = Wiring.std) (hwf : WfCfg c)
    (acts : List Act) (s : State) (hr : run c (init c) acts = some s) (j : Nat) :
    s.log.count (Ev.started j) ≤ 1 :=
  (allInv_run hw hwf acts s hr).i3.once j

/-- Non-vacuity: a diamond with a duplicated dependency, job 3 enqueued after job 1 already
    finished (the "dependency already done" branch), run to the start of job 3 on two workers. -/
example :
    let c : Cfg := { N := 2, coe := false, emit := false, deps := [[], [0], [0, 0], [1, 2, 1]] }
    ∃ s, run c (init c)
      [.callerSend, .loopEnq, .callerSend, .loopEnq, .callerSend, .loopEnq,
       .loopDispatch 0, .workerDecide 0, .workerEnd 0 .ok false, .workerPost 0, .loopResult,
       .loopDispatch 0, .loopDispatch 1, .workerDecide 0, .workerDecide 1,
       .workerEnd 0 .ok false, .workerPost 0, .loopResult,
       .callerSend, .loopEnq,
       .workerEnd 1 .ok false, .workerPost 1, .loopResult,
       .loopDispatch 1, .workerDecide 1] = some s
      ∧ s.log.getLast? = some (Ev.started 3) ∧ wfCfgB c = true := by
  decide

/-- Without the worker's `invalid` check a job runs although its dependency failed
    (ContinueOnError): the flag matters, the theorem is not vacuous. -/
example :
    let c : Cfg := { N := 1, coe := true, emit := false, deps := [[], [0]],
                     wiring := { workerChecksInvalid := false } }
    ∃ s, run c (init c)
      [.callerSend, .loopEnq, .callerSend, .loopEnq, .loopDispatch 0, .workerDecide 0,
       .workerEnd 0 (.fail 7) false, .workerPost 0, .loopResult, .loopDispatch 0, .workerDecide 0] = some s
      ∧ s.log.getLast? = some (Ev.started 1) ∧ Ev.ended 0 .ok ∉ s.log := by
  decide

/-! ### C03 — bounded concurrency -/

def W.isRunning : W → Bool
  | .running _ => true
  | _ => false

/-- There are exactly `N` worker slots in every reachable state … -/
theorem C03_worker_slots (c : Cfg) (acts : List Act) (s : State)
    (hr : run c (init c) acts = some s) : s.ws.length = c.N := by
  refine run_induct (c := c) (fun s => s.ws.length = c.N) ?_ acts _ _ (by simp [init]) hr
  intro s a s' hp h
  rw [step_ws_length h]; exact hp

/-- … hence at most `N` job bodies execute at any instant, for every graph, mode and schedule. -/
theorem C03_at_most_N_running (c : Cfg) (acts : List Act) (s : State)
    (hr : run c (init c) acts = some s) : (s.ws.filter W.isRunning).length ≤ c.N := by
  have := C03_worker_slots c acts s hr
  exact this ▸ List.length_filter_le _ _

/-- `Concurrency: 0` means `max(GOMAXPROCS, 4)`. -/
def defaultConc (gomaxprocs : Nat) : Nat := if gomaxprocs < 4 then 4 else gomaxprocs
theorem C03_default (g : Nat) : defaultConc g = max g 4 := by
  unfold defaultConc; split <;> omega

/-- **C03 "capacity not lost".** If a job is ready, fewer than `N` bodies are running, the context
    of the front ready job is live, that job is valid, and (fail-fast) nothing has failed so far
    (`NothingFailed`: every ended body ended ok, no job was skipped for its context, and the jobs
    workers have received but not decided on have live contexts), then the
    scheduler on its own — by loop and worker steps only: no running body has to finish, no caller
    action, no tick — gets one more body running.  In ContinueOnError mode this holds after any
    number of failed, Goexit-ed or context-skipped jobs (the worker slot is restored by respawn),
    whatever the state of the other jobs' contexts.  The fail-fast
    premise is needed: with a failing result in flight — also the `ctxErr` of a job whose own
    context is cancelled — the loop is legitimately shutting down
    (illustrated by `decide`d examples in Sched/WorkCons.lean). -/
theorem C03_work_conserving (c : Cfg) (hw : c.wiring = Wiring.std) (hwf : WfCfg c) (acts : List Act) (s : State)
    (hr : run c (init c) acts = some s)
    (hsel : s.loop.phase = .select) (hready : s.loop.ready ≠ [])
    (hfree : (s.ws.filter W.isRunning).length < c.N)
    (hlive : ∀ j, s.loop.ready.head? = some j → s.cancelledCtx (c.ctxOfJob j) = false)
    (hvalid : ∀ j, s.loop.ready.head? = some j → (Loop.job s.loop j).invalid = false)
    (hnofail : c.coe = true ∨ NothingFailed c s) :
    ∃ (more : List Act) (s' : State), (∀ a ∈ more, a.isInternal = true) ∧ run c s more = some s' ∧
      (s.ws.filter W.isRunning).length < (s'.ws.filter W.isRunning).length := by
  have e : W.isRunning = W.isRun := by funext x; cases x <;> rfl
  simp only [← List.countP_eq_length_filter, e] at hfree ⊢
  exact work_conserving_core c hw hwf acts s hr hsel hready hfree hlive hvalid hnofail

/-! ### C09 — cancellation -/

/-- **C09 "returns at once".** From every reachable state in which the context `Wait` is called
    with (`c.waitCtx`) is cancelled and `Wait` has not returned, the caller can complete every remaining `Enqueue` and return from
    `Wait` by steps none of which is the end of a running job body: it never has to wait for a
    running task (pending Enqueues are absorbed by the loop or by its drain; `Wait` leaves through
    its `ctx.Done()` arm). -/
theorem C09_prompt (c : Cfg) (hw : c.wiring = Wiring.std) (hwf : WfCfg c) (acts : List Act) (s : State)
    (hr : run c (init c) acts = some s) (hc : s.cancelledCtx c.waitCtx = true) (hnr : s.caller.ret = none) :
    ∃ (more : List Act) (s' : State), (∀ a ∈ more, a.isWorkerEnd = false) ∧ run c s more = some s' ∧
      s'.caller.ret.isSome = true ∧ (s.caller.closed = false → s'.caller.sent = c.deps.length) :=
  prompt_return c hw hwf acts s hr hc hnr

/-- Without `Wait`'s `ctx.Done()` arm the caller of a cancelled flow is stuck behind a running body:
    the only enabled actions are the body's end and nothing the caller can do (the flag matters). -/
example :
    let c : Cfg := { N := 1, coe := false, emit := false, deps := [[]],
                     wiring := { waitSelectsCtx := false } }
    ∃ s, run c (init c) [.callerSend, .loopEnq, .loopDispatch 0, .workerDecide 0, .callerClose, .loopEnqClosed, .cancel 0] = some s
      ∧ step c s .callerRetCtx = none ∧ step c s .callerRetFin = none ∧ s.ws = [.running 0] := by
  decide

/-- No job is started after its own context (the one it was enqueued with) was cancelled, in
    either error mode: in every log, every `started j` event precedes the `cancelled` event of
    `j`'s context.  (Cancelling another job's context does not stop `j`: see the two-context
    examples below.) -/
theorem C09_no_start_after_cancel (c : Cfg) (hw : c.wiring = Wiring.std) (acts : List Act) (s : State)
    (hr : run c (init c) acts = some s) (i k j : Nat)
    (hi : s.log[i]? = some (Ev.cancelled (c.ctxOfJob j))) (hk : s.log[k]? = some (Ev.started j)) : k < i := by
  have inv : CancelInv c s :=
    run_induct (c := c) (CancelInv c) (fun s a s' hp h => cancelInv_step hw hp h) acts _ _ (cancelInv_init c) hr
  exact inv.clean _ i k _ hi hk (by simp [Bad])

/-- `Wait` never returns nil at an instant where its own context is already cancelled. -/
theorem C09_nil_implies_not_cancelled (c : Cfg) (hw : c.wiring = Wiring.std) (acts : List Act) (s : State)
    (hr : run c (init c) acts = some s) (i k : Nat)
    (hi : s.log[i]? = some (Ev.cancelled c.waitCtx)) (hk : s.log[k]? = some (Ev.waitReturned [])) : k < i := by
  have inv : CancelInv c s :=
    run_induct (c := c) (CancelInv c) (fun s a s' hp h => cancelInv_step hw hp h) acts _ _ (cancelInv_init c) hr
  exact inv.clean _ i k _ hi hk (by simp [Bad])

/-- Non-vacuity: a run in which a job starts, the context is cancelled, and a second job is skipped. -/
example :
    let c : Cfg := { N := 1, coe := true, emit := false, deps := [[], []] }
    ∃ s, run c (init c) [.callerSend, .loopEnq, .callerSend, .loopEnq, .loopDispatch 0, .workerDecide 0,
        .cancel 0, .workerEnd 0 .ok false, .workerPost 0, .loopResult, .loopDispatch 0, .workerDecide 0] = some s
      ∧ Ev.started 0 ∈ s.log ∧ Ev.cancelled 0 ∈ s.log ∧ Ev.skipped 1 .ctx ∈ s.log := by
  decide

/-- Without the worker's context check a job does start after cancellation (the flag matters). -/
example :
    let c : Cfg := { N := 1, coe := false, emit := false, deps := [[]],
                     wiring := { workerChecksCtx := false } }
    ∃ s, run c (init c) [.cancel 0, .callerSend, .loopEnq, .loopDispatch 0, .workerDecide 0] = some s
      ∧ s.log.getLast? = some (Ev.started 0) ∧ Ev.cancelled 0 ∈ s.log := by
  decide

/-- Two contexts, ContinueOnError (non-vacuity of the per-job-context model): job 0 is enqueued
    with context 1, job 1 and `Wait` with context 0; context 1 is cancelled before job 0 is
    dispatched.  Job 0 is skipped with `ctxErr` (never started); the independent job 1, whose
    context is live, still runs — it starts after the `cancelled 1` event — and `Wait`, whose
    context is live too, returns `[ctxErr]` through its finished arm. -/
example :
    let c : Cfg := { N := 1, coe := true, emit := false, deps := [[], []], ctxOf := [1, 0], waitCtx := 0 }
    ∃ s, run c (init c)
      [.cancel 1, .callerSend, .loopEnq, .callerSend, .loopEnq, .callerClose, .loopEnqClosed,
       .loopDispatch 0, .workerDecide 0, .workerPost 0, .loopResult,
       .loopDispatch 0, .workerDecide 0, .workerEnd 0 .ok false, .workerPost 0, .loopResult,
       .loopClose, .callerRetFin] = some s
      ∧ s.log.head? = some (Ev.cancelled 1)
      ∧ Ev.skipped 0 .ctx ∈ s.log ∧ Ev.started 0 ∉ s.log
      ∧ Ev.started 1 ∈ s.log ∧ Ev.ended 1 .ok ∈ s.log
      ∧ s.cancelledCtx 1 = true ∧ s.cancelledCtx 0 = false
      ∧ s.loop.err = [.ctxErr] ∧ s.caller.ret = some [.ctxErr]
      ∧ step c s .callerRetCtx = none ∧ wfCfgB c = true := by
  decide

/-- The same in fail-fast mode: the loop leaves its `for` at the first `ctxErr` (job 0's, whose own
    context is cancelled); job 1 — live context, no dependency — is never dispatched, and `Wait`
    (live context) returns `[ctxErr]`. -/
example :
    let c : Cfg := { N := 1, coe := false, emit := false, deps := [[], []], ctxOf := [1, 0], waitCtx := 0 }
    ∃ s, run c (init c)
      [.cancel 1, .callerSend, .loopEnq, .callerSend, .loopEnq, .callerClose, .loopEnqClosed,
       .loopDispatch 0, .workerDecide 0, .workerPost 0, .loopResult] = some s
      ∧ s.loop.phase = .draining ∧ s.loop.err = [.ctxErr]
      ∧ Ev.skipped 0 .ctx ∈ s.log ∧ s.loop.ready = [1]
      ∧ step c s (.loopDispatch 0) = none
      ∧ ∃ s', run c s [.loopClose, .callerRetFin, .workerExit 0] = some s'
          ∧ s'.caller.ret = some [.ctxErr] ∧ Ev.dispatched 1 ∉ s'.log ∧ Ev.started 1 ∉ s'.log
          ∧ s'.cancelledCtx 0 = false ∧ Final s' = true := by
  decide

/-- `Wait`'s own context: with context 1 for `Wait` and context 0 for the job, cancelling
    context 1 lets `Wait` return `[ctxErr]` at once while the job (live context) is running; and
    cancelling only the job's context does not enable `Wait`'s context arm. -/
example :
    let c : Cfg := { N := 1, coe := false, emit := false, deps := [[]], ctxOf := [0], waitCtx := 1 }
    (∃ s, run c (init c) [.callerSend, .loopEnq, .loopDispatch 0, .workerDecide 0, .callerClose,
                          .cancel 1, .callerRetCtx] = some s
      ∧ s.caller.ret = some [.ctxErr] ∧ s.ws = [.running 0] ∧ s.cancelledCtx 0 = false)
    ∧ (∃ s, run c (init c) [.callerSend, .loopEnq, .loopDispatch 0, .workerDecide 0, .callerClose,
                            .cancel 0] = some s
      ∧ step c s .callerRetCtx = none ∧ s.cancelledCtx 0 = true) := by
  decide


/-! ### C19 — state reports -/

theorem inv4_run {c : Cfg} (hw : c.wiring = Wiring.std) (hwf : WfCfg c) (acts : List Act) (s : State)
    (hr : run c (init c) acts = some s) : Inv1 c s ∧ Inv4 c s := by
  refine run_induct (c := c) (fun s => Inv1 c s ∧ Inv4 c s) ?_ acts _ _ ⟨inv1_init c, inv4_init c⟩ hr
  intro s a s' hp h
  exact ⟨inv1_step hw hwf hp.1 h, inv4_step hw hwf hp.1 hp.2 h⟩

/-- Every state report ever emitted satisfies: all fields non-negative;
    `Pending = Ready + Waiting + executing` with `0 ≤ executing ≤ Concurrency`;
    `IdleWorkers = Concurrency − executing`; `Concurrency` is the configured limit;
    `Pending ≤` number of jobs submitted before the report; `Waiting ≤` number of those that
    name a dependency.  For every DAG, worker count, mode, and every instant the ticker fires. -/
theorem C19_report_consistent (c : Cfg) (hw : c.wiring = Wiring.std) (hwf : WfCfg c)
    (acts : List Act) (s : State) (hr : run c (init c) acts = some s) (i : Nat) (st : Report)
    (hi : s.log[i]? = some (Ev.report st)) :
    GoodReport c ((s.log.take i).filterMap Ev.sentId).length st :=
  (inv4_run hw hwf acts s hr).2.reports i st hi

/-- Reports stop when the loop exits … -/
theorem C19_stop (c : Cfg) (hw : c.wiring = Wiring.std) (hwf : WfCfg c)
    (acts : List Act) (s : State) (hr : run c (init c) acts = some s) (i k : Nat) (st : Report)
    (hi : s.log[i]? = some Ev.loopExit) (hk : s.log[k]? = some (Ev.report st)) : k < i :=
  (inv4_run hw hwf acts s hr).2.stop i k st hi hk

/-- … and `Wait` returns through its finished arm only after the loop has exited
    (so no report follows a normal completion). -/
theorem C19_fin_after_exit (c : Cfg) (s s' : State) (h : step c s .callerRetFin = some s') :
    s.loop.phase = .exited := (inv_callerRetFin h).2.2.1

/-- The executing count is what the gate bounds: without the gate a report with
    `executing = 2 > N = 1` is reachable (this was defect F1 of the unfixed scheduler). -/
example :
    let c : Cfg := { N := 1, coe := false, emit := true, deps := [[], []],
                     wiring := { gateDispatch := false } }
    ∃ s, run c (init c)
      [.callerSend, .loopEnq, .callerSend, .loopEnq, .loopDispatch 0, .workerDecide 0,
       .workerEnd 0 .ok false, .workerPost 0, .loopDispatch 0, .loopTick] = some s
      ∧ s.log.getLast? = some (Ev.report { pending := 2, ready := 0, waiting := 0, idle := 0, concurrency := 1 }) := by
  decide


/-! ### C05 — termination, C06 — no goroutine leak -/

def Act.isTick : Act → Bool
  | .loopTick => true
  | _ => false

/-- **C05 progress.** From every reachable state that is not final — whatever the graph, the failure,
    Goexit and cancellation pattern, `N ≥ 1`, mode, emitter — some action other than the ticker is
    enabled (a running body counts as able to end: the premise that user functions return). In
    particular no reachable state has the caller blocked forever in `Enqueue` or `Wait`. -/
theorem C05_progress (c : Cfg) (hw : c.wiring = Wiring.std) (hwf : WfCfg c)
    (acts : List Act) (s : State) (hr : run c (init c) acts = some s) (hnf : Final s = false) :
    ∃ a, a ≠ Act.loopTick ∧ (step c s a).isSome = true :=
  progress hw hwf (reach_run hw hwf acts s hr) hnf

/-- **C05 measure.** Every non-tick action strictly decreases the natural number `mu`. -/
theorem C05_measure (c : Cfg) (hw : c.wiring = Wiring.std) (hwf : WfCfg c)
    (acts : List Act) (s s' : State) (a : Act) (hr : run c (init c) acts = some s)
    (hs : step c s a = some s') (ha : a ≠ .loopTick) : mu c s' < mu c s :=
  mu_decreases hw hwf (reach_run hw hwf acts s hr) hs ha

/-- **C05 termination.** Any continuation of a reachable state that contains no tick has at most
    `mu c s` actions: there is no infinite execution in which the scheduler keeps working
    without finishing. -/
theorem C05_terminates (c : Cfg) (hw : c.wiring = Wiring.std) (hwf : WfCfg c)
    (acts : List Act) (s : State) (hr : run c (init c) acts = some s) :
    ∀ (more : List Act) (s' : State), (∀ a ∈ more, a.isTick = false) → run c s more = some s' →
      more.length + mu c s' ≤ mu c s := by
  intro more
  induction more generalizing acts s with
  | nil => intro s' _ h; simp [run] at h; subst h; simp
  | cons a as ih =>
    intro s' hnt h
    simp only [run] at h
    cases hs : step c s a with
    | none => simp [hs] at h
    | some s1 =>
      simp [hs] at h
      have ha : a ≠ .loopTick := by
        intro e; have := hnt a (by simp); simp [e, Act.isTick] at this
      have hdec := C05_measure c hw hwf acts s s1 a hr hs ha
      have hr1 : run c (init c) (acts ++ [a]) = some s1 := by
        have : ∀ (xs : List Act) (t : State), run c t (xs ++ [a]) = (run c t xs).bind (fun u => step c u a) := by
          intro xs
          induction xs with
          | nil => intro t; simp [run]
          | cons x xs ihx =>
            intro t; simp only [List.cons_append, run]
            cases step c t x with
            | none => simp
            | some u => simp [ihx]
        rw [this, hr]; simp [hs]
      have := ih (acts ++ [a]) s1 hr1 s' (fun b hb => hnt b (by simp [hb])) h
      simp; omega

/-- **C06.** A reachable state in which nothing but the ticker can happen is `Final`: `Wait` has
    returned, the loop goroutine has exited and **every worker goroutine has exited** — after
    success, fail-fast exit, ContinueOnError, Goexit-ing jobs, cancellation, or `Wait` having
    returned early through its context arm.  With `C05_terminates`, every maximal execution ends
    there, so no scheduler goroutine is left behind. -/
theorem C06_no_stuck_goroutine (c : Cfg) (hw : c.wiring = Wiring.std) (hwf : WfCfg c)
    (acts : List Act) (s : State) (hr : run c (init c) acts = some s)
    (hstuck : ∀ a, a ≠ Act.loopTick → step c s a = none) :
    s.caller.ret.isSome = true ∧ s.loop.phase = .exited ∧ ∀ x ∈ s.ws, x = W.exited := by
  cases hf : Final s with
  | false =>
    obtain ⟨a, ha, hen⟩ := C05_progress c hw hwf acts s hr hf
    rw [hstuck a ha] at hen; simp at hen
  | true =>
    simp only [Final, Bool.and_eq_true, beq_iff_eq, List.all_eq_true] at hf
    exact ⟨hf.1.1, hf.1.2, hf.2⟩

/-- The invariant behind C06: the loop never has more jobs out than workers, so results waiting
    in `donec` plus busy workers never exceed `cap(donec) = N` and a worker can always post. -/
theorem C06_post_never_blocks (c : Cfg) (hw : c.wiring = Wiring.std) (hwf : WfCfg c)
    (acts : List Act) (s : State) (hr : run c (init c) acts = some s) :
    s.ws.countP W.busy + s.donec.length ≤ c.N := by
  have R := reach_run hw hwf acts s hr
  have h1 := R.i1.ongoing
  have h2 := R.i1.gate
  omega

/-- Negation witness (defect F1 of the unfixed scheduler): without the dispatch gate, N = 2 and four
    independent failing jobs in fail-fast mode reach a state where the caller has returned, the
    loop has exited, and a worker is blocked forever posting to the full `donec`. -/
example :
    let c : Cfg := { N := 2, coe := false, emit := false, deps := [[], [], [], []],
                     wiring := { gateDispatch := false } }
    ∃ s, run c (init c)
      [.callerSend, .loopEnq, .callerSend, .loopEnq, .callerSend, .loopEnq, .callerSend, .loopEnq, .callerClose,
       .loopDispatch 0, .loopDispatch 1, .workerDecide 0, .workerDecide 1,
       .workerEnd 0 (.fail 0) false, .workerEnd 1 (.fail 1) false, .workerPost 0, .workerPost 1,
       .loopDispatch 0, .loopDispatch 1, .workerDecide 0, .workerDecide 1,
       .workerEnd 0 (.fail 2) false, .workerEnd 1 (.fail 3) false,
       .loopResult, .loopClose, .callerRetFin, .workerPost 0] = some s
      ∧ s.caller.ret = some [.fail 0] ∧ s.loop.phase = .exited
      ∧ s.ws = [.idle, .posting 3 (.fail 3)] ∧ s.donec.length = 2
      ∧ step c s (.workerPost 1) = none := by
  decide


/-! ### C07 — fail-fast soundness, C08 — ContinueOnError -/

theorem full_run {c : Cfg} (hw : c.wiring = Wiring.std) (hwf : WfCfg c) (acts : List Act) (s : State)
    (hr : run c (init c) acts = some s) : Reach2 c s ∧ Inv8 c s := by
  refine run_induct (c := c) (fun s => Reach2 c s ∧ Inv8 c s) ?_ acts _ _ ?_ hr
  · intro s a s' hp h
    have hr2 : Reach2 c s' := by
      have R := hp.1.r
      exact ⟨⟨inv1_step hw hwf R.i1 h, inv2_step hw hwf R.i1 R.i2 h, inv3_step hw hwf R.i1 R.i2 R.i3 h,
              inv4_step hw hwf R.i1 R.i4 h, inv5_step hw R.i5 h⟩, inv6_step hw hwf R hp.1.i6 h, inv7_step hw hwf R hp.1.i7 h⟩
    exact ⟨hr2, inv8_step hw hwf hp.1 hp.2 h⟩
  · exact ⟨⟨⟨inv1_init c, inv2_init c, inv3_init c, inv4_init c, inv5_init c⟩, inv6_init c, inv7_init c⟩, inv8_init c⟩

theorem eq_of_countP_le_one {p : Ev → Bool} : ∀ {l : List Ev} {a b : Ev}, l.countP p ≤ 1 → a ∈ l → b ∈ l →
    p a = true → p b = true → a = b := by
  intro l
  induction l with
  | nil => intro a b _ ha; simp at ha
  | cons x xs ih =>
    intro a b hc ha hb hpa hpb
    rw [List.countP_cons] at hc
    simp only [List.mem_cons] at ha hb
    rcases ha with rfl | ha <;> rcases hb with rfl | hb
    · rfl
    · have := List.countP_pos_iff.mpr ⟨b, hb, hpb⟩; simp only [hpa, if_true] at hc; omega
    · have := List.countP_pos_iff.mpr ⟨a, ha, hpa⟩; simp only [hpb, if_true] at hc; omega
    · exact ih (by omega) ha hb hpa hpb

/-- **C07 nil ⇒ complete.** Fail-fast: if `Wait` returned nil, every submitted job ended without
    error, having been started exactly once (and the context was not cancelled at that instant:
    `C09_nil_implies_not_cancelled`). -/
theorem C07_nil_complete (c : Cfg) (hw : c.wiring = Wiring.std) (hwf : WfCfg c) (hc : c.coe = false)
    (acts : List Act) (s : State) (hr : run c (init c) acts = some s)
    (hnil : Ev.waitReturned [] ∈ s.log) (j : Nat) (hj : j < s.caller.sent) :
    Ev.ended j .ok ∈ s.log ∧ s.log.count (Ev.started j) = 1 := by
  obtain ⟨R, h8⟩ := full_run hw hwf acts s hr
  have he := h8.nilComplete hc hnil j hj
  have hst := R.i6.endedStarted j _ he
  have h1 := R.r.i3.once j
  have h2 : 0 < s.log.count (Ev.started j) := List.count_pos_iff.mpr hst
  exact ⟨he, by omega⟩

/-- **C07 error ⇒ real.** Fail-fast: a non-nil error returned by `Wait` is exactly one entry, and
    it is the error value of a job that actually failed, the exit error of a job that called
    Goexit, or a context's error after a cancellation of that context (`RealEntry`: `Wait`'s own
    context, or the own context of a job that was skipped for it) — never anything else (no
    sentinel). -/
theorem C07_error_real (c : Cfg) (hw : c.wiring = Wiring.std) (hwf : WfCfg c) (hc : c.coe = false)
    (acts : List Act) (s : State) (hr : run c (init c) acts = some s) (r : List Res)
    (hret : Ev.waitReturned r ∈ s.log) : r = [] ∨ ∃ x, r = [x] ∧ RealEntry c x s.log := by
  obtain ⟨_, h8⟩ := full_run hw hwf acts s hr
  have hlen := h8.retFfLen hc r hret
  match r, hret, hlen with
  | [], _, _ => exact Or.inl rfl
  | [x], hret, _ => exact Or.inr ⟨x, rfl, h8.retReal _ hret x (by simp)⟩
  | _ :: _ :: _, _, hlen => simp at hlen

/-- Transitive dependencies. -/
inductive Anc (c : Cfg) : Nat → Nat → Prop
  | direct {j d : Nat} : d ∈ c.depsOf j → Anc c j d
  | step {j d a : Nat} : d ∈ c.depsOf j → Anc c d a → Anc c j a

/-- **C07/C08 nothing downstream of a failure runs.** If a job started, every transitive
    dependency ended without error (in both modes). -/
theorem C07_no_downstream (c : Cfg) (hw : c.wiring = Wiring.std) (hwf : WfCfg c)
    (acts : List Act) (s : State) (hr : run c (init c) acts = some s) (j a : Nat)
    (hst : Ev.started j ∈ s.log) (ha : Anc c j a) : Ev.ended a .ok ∈ s.log := by
  obtain ⟨R, _⟩ := full_run hw hwf acts s hr
  have direct : ∀ j d, Ev.started j ∈ s.log → d ∈ c.depsOf j → Ev.ended d .ok ∈ s.log := by
    intro j d hst hd
    obtain ⟨i, hi⟩ := List.mem_iff_getElem?.mp hst
    obtain ⟨k, _, hk⟩ := R.r.i3.depsBefore i j hi d hd
    exact List.mem_of_getElem? hk
  induction ha with
  | direct hd => exact direct _ _ hst hd
  | step hd _ ih => exact ih (R.i6.endedStarted _ _ (direct _ _ hst hd))

/-- **C08 error entries.** ContinueOnError: the accumulated error is, in order, exactly one entry
    per result the loop saw that was a failure other than the internal sentinel; the sentinel never
    appears; every entry is a real failure (a job's own error value, a Goexit, or the context's
    error of a job skipped because its own context was cancelled). -/
theorem C08_error_entries (c : Cfg) (hw : c.wiring = Wiring.std) (hwf : WfCfg c) (hc : c.coe = true)
    (acts : List Act) (s : State) (hr : run c (init c) acts = some s) :
    s.loop.err = s.log.filterMap Ev.errEntry ∧ Res.invalid ∉ s.loop.err ∧ Res.ok ∉ s.loop.err ∧
    ∀ x ∈ s.loop.err, RealEntry c x s.log := by
  obtain ⟨R, _⟩ := full_run hw hwf acts s hr
  have he := R.i7.errCoe hc
  refine ⟨he, ?_, ?_, ?_⟩
  · intro hm; rw [he] at hm; obtain ⟨_, _, _, hni⟩ := mem_filterMap_errEntry hm; exact hni rfl
  · intro hm; rw [he] at hm; obtain ⟨_, _, hie, _⟩ := mem_filterMap_errEntry hm; simp [Res.isErr] at hie
  · intro x hx; rw [he] at hx
    obtain ⟨j, hm, hie, hni⟩ := mem_filterMap_errEntry hx
    exact realEntry_of_seen R.i6 hm hie hni

/-- **C08 one result per job.** Each job contributes at most one result, and that result is what
    its single worker decision produced (the body's outcome, a context skip, or an invalid skip). -/
theorem C08_one_result_per_job (c : Cfg) (hw : c.wiring = Wiring.std) (hwf : WfCfg c)
    (acts : List Act) (s : State) (hr : run c (init c) acts = some s) (j : Nat) :
    s.log.countP (Ev.isSeenOf j) ≤ 1 ∧ s.log.countP (Ev.decides j) ≤ 1 ∧ s.log.countP (Ev.isEndedOf j) ≤ 1 ∧
    ∀ r, Ev.resultSeen j r ∈ s.log → Produced j r s.log := by
  obtain ⟨R, _⟩ := full_run hw hwf acts s hr
  exact ⟨R.i6.seenOnce j, R.i6.decOnce j, R.i6.endedOnce j, fun r hm => (R.i6.seenProd j r hm).1⟩

/-- **C08/C09 context skip ⇒ own context cancelled** (new with per-job contexts; both modes).  A job
    is skipped with the context's error only if the context *it was enqueued with* has been
    cancelled — never because some other job's context, or `Wait`'s, was. -/
theorem C08_ctx_skip_own_context (c : Cfg) (hw : c.wiring = Wiring.std) (hwf : WfCfg c)
    (acts : List Act) (s : State) (hr : run c (init c) acts = some s) (j : Nat)
    (hsk : Ev.skipped j .ctx ∈ s.log) :
    Ev.cancelled (c.ctxOfJob j) ∈ s.log ∧ s.cancelledCtx (c.ctxOfJob j) = true ∧ Ev.started j ∉ s.log := by
  obtain ⟨R, _⟩ := full_run hw hwf acts s hr
  have hcan := R.i6.skipCtx j hsk
  have inv : CancelInv c s :=
    run_induct (c := c) (CancelInv c) (fun s a s' hp h => cancelInv_step hw hp h) acts _ _ (cancelInv_init c) hr
  refine ⟨hcan, inv.flag _ hcan, ?_⟩
  intro hst
  have := eq_of_countP_le_one (R.i6.decOnce j) hst hsk (by simp [Ev.decides]) (by simp [Ev.decides])
  simp at this

/-- **C08 what `Wait` returns** (both modes): every entry of every error `Wait` ever returned is real. -/
theorem C08_wait_entries_real (c : Cfg) (hw : c.wiring = Wiring.std) (hwf : WfCfg c)
    (acts : List Act) (s : State) (hr : run c (init c) acts = some s) (r : List Res)
    (hret : Ev.waitReturned r ∈ s.log) : ∀ x ∈ r, RealEntry c x s.log :=
  (full_run hw hwf acts s hr).2.retReal r hret

/-- **C08 everything is decided.** ContinueOnError: when the loop has left its `for`, every
    submitted job has had its result seen (so it ran, or was skipped for a recorded reason). -/
theorem C08_all_decided_at_exit (c : Cfg) (hw : c.wiring = Wiring.std) (hwf : WfCfg c) (hc : c.coe = true)
    (acts : List Act) (s : State) (hr : run c (init c) acts = some s) (hp : s.loop.phase ≠ .select)
    (j : Nat) (hj : j < s.caller.sent) : ∃ r, Ev.resultSeen j r ∈ s.log := by
  obtain ⟨R, _⟩ := full_run hw hwf acts s hr
  rcases R.i7.exitReason hp with ⟨hff, _⟩ | ⟨hpend, hnil⟩
  · simp [hc] at hff
  · have hlen := R.i7.nilAll hnil
    have hall : s.loop.jobs.countP Loop.undoneB = 0 := by
      have := R.r.i4.counts.pend; rw [hpend] at this; exact_mod_cast this.symm
    have hjdone : (Loop.job s.loop j).done = true := by
      rw [countP_jobs_range, List.countP_eq_zero] at hall
      have := hall j (List.mem_range.mpr (by omega))
      simpa [Loop.undoneB, Loop.job] using this
    exact R.i6.doneSeen j hjdone

/-- **C08 everything runnable ran.** ContinueOnError, the job's own context never cancelled: once
    the loop has left, a submitted job all of whose dependencies ended without error was started
    (exactly once, by `C01_at_most_once`) — failures elsewhere, and cancellations of other jobs'
    contexts or of `Wait`'s, do not stop it. -/
theorem C08_runnable_ran (c : Cfg) (hw : c.wiring = Wiring.std) (hwf : WfCfg c) (hc : c.coe = true)
    (acts : List Act) (s : State) (hr : run c (init c) acts = some s) (hp : s.loop.phase ≠ .select)
    (j : Nat) (hj : j < s.caller.sent) (hdeps : ∀ d ∈ c.depsOf j, Ev.ended d .ok ∈ s.log)
    (hnc : Ev.cancelled (c.ctxOfJob j) ∉ s.log) : Ev.started j ∈ s.log := by
  obtain ⟨R, h8⟩ := full_run hw hwf acts s hr
  obtain ⟨r, hseen⟩ := C08_all_decided_at_exit c hw hwf hc acts s hr hp j hj
  rcases (R.i6.seenProd j r hseen).1 with ⟨o, _, he⟩ | ⟨_, hsk⟩ | ⟨_, hsk⟩
  · exact R.i6.endedStarted j o he
  · exact absurd (R.i6.skipCtx j hsk) hnc
  · -- skipped as invalid: some dependency failed — but all dependencies ended ok
    obtain ⟨d, hd, hf⟩ := h8.skippedInvalid j hsk
    have hdd := R.r.i2.failedDone d hf
    obtain ⟨r', hr'⟩ := R.i6.doneSeen d hdd
    obtain ⟨hprod, _, hfe⟩ := R.i6.seenProd d r' hr'
    have hie : r'.isErr = true := by rw [← hfe]; exact hf
    have hok := hdeps d hd
    rcases hprod with ⟨o, ho, he⟩ | ⟨_, hsk'⟩ | ⟨_, hsk'⟩
    · have := eq_of_countP_le_one (R.i6.endedOnce d) he hok (by simp [Ev.isEndedOf]) (by simp [Ev.isEndedOf])
      simp at this; subst this; subst ho; simp [outcomeRes, Res.isErr] at hie
    · -- the dependency was skipped for its context — but it ended ok, so it was started
      have hst := R.i6.endedStarted d _ hok
      have := eq_of_countP_le_one (R.i6.decOnce d) hst hsk' (by simp [Ev.decides]) (by simp [Ev.decides])
      simp at this
    · have hst := R.i6.endedStarted d _ hok
      have := eq_of_countP_le_one (R.i6.decOnce d) hst hsk' (by simp [Ev.decides]) (by simp [Ev.decides])
      simp at this

/-- **C08 invalid skip ⇒ failed dependency.** A job is skipped as invalid only if one of the
    dependencies it names produced a failing result. -/
theorem C08_invalid_has_failed_dep (c : Cfg) (hw : c.wiring = Wiring.std) (hwf : WfCfg c)
    (acts : List Act) (s : State) (hr : run c (init c) acts = some s) (j : Nat)
    (hsk : Ev.skipped j .invalid ∈ s.log) :
    ∃ d ∈ c.depsOf j, ∃ r, Ev.resultSeen d r ∈ s.log ∧ r.isErr = true := by
  obtain ⟨R, h8⟩ := full_run hw hwf acts s hr
  obtain ⟨d, hd, hf⟩ := h8.skippedInvalid j hsk
  obtain ⟨r, hr'⟩ := R.i6.doneSeen d (R.r.i2.failedDone d hf)
  exact ⟨d, hd, r, hr', by rw [← (R.i6.seenProd d r hr').2.2]; exact hf⟩

/-- Fail-fast never skips a job as invalid (the `invalid` mechanism is ContinueOnError-only). -/
theorem C07_no_invalid_in_failfast (c : Cfg) (hw : c.wiring = Wiring.std) (hwf : WfCfg c) (hc : c.coe = false)
    (acts : List Act) (s : State) (hr : run c (init c) acts = some s) (j : Nat) :
    Ev.skipped j .invalid ∉ s.log :=
  (full_run hw hwf acts s hr).2.noInvalidFf hc j

/-- Non-vacuity (C08): ContinueOnError with a failing job 0, its dependent 1 (skipped as invalid)
    and an independent job 2 that still runs; `Wait` returns exactly `[fail 7]`. -/
example :
    let c : Cfg := { N := 1, coe := true, emit := false, deps := [[], [0], []] }
    ∃ s, run c (init c)
      [.callerSend, .loopEnq, .callerSend, .loopEnq, .callerSend, .loopEnq, .callerClose, .loopEnqClosed,
       .loopDispatch 0, .workerDecide 0, .workerEnd 0 (.fail 7) false, .workerPost 0, .loopResult,
       .loopDispatch 0, .workerDecide 0, .workerEnd 0 .ok false, .workerPost 0, .loopResult,
       .loopDispatch 0, .workerDecide 0, .workerPost 0, .loopResult,
       .loopClose, .callerRetFin] = some s
      ∧ s.caller.ret = some [.fail 7] ∧ Ev.skipped 1 .invalid ∈ s.log ∧ Ev.started 2 ∈ s.log
      ∧ Ev.started 1 ∉ s.log := by
  decide

/-- Without the sentinel filter the internal "job invalid" error shows up in the result. -/
example :
    let c : Cfg := { N := 1, coe := true, emit := false, deps := [[], [0]],
                     wiring := { filterSentinel := false } }
    ∃ s, run c (init c)
      [.callerSend, .loopEnq, .callerSend, .loopEnq, .callerClose, .loopEnqClosed,
       .loopDispatch 0, .workerDecide 0, .workerEnd 0 (.fail 7) false, .workerPost 0, .loopResult,
       .loopDispatch 0, .workerDecide 0, .workerPost 0, .loopResult, .loopClose, .callerRetFin] = some s
      ∧ s.caller.ret = some [.fail 7, .invalid] := by
  decide

end Sched

namespace Sched

/-! ### C12 — ownership discipline (partial: the Go memory model is trusted) -/

/-- **C12 loop-owned state.** Enqueue, Wait, every worker step and cancellation leave the loop's
    state — every job's `remaining/consumers/done/err/invalid`, the ready list, the counters and
    `s.err` — untouched: only the loop goroutine writes it. -/
theorem C12_loop_state_owner (c : Cfg) (hw : c.wiring = Wiring.std) (s s' : State) (a : Act)
    (ha : a.isLoop = false) (hs : step c s a = some s') : s'.loop = s.loop :=
  step_nonloop_frame hw ha hs

/-- **C12 hand-off.** The loop touches a worker only through the `readyc` hand-off to an idle worker. -/
theorem C12_loop_touches_workers_only_by_handoff (c : Cfg) (hw : c.wiring = Wiring.std) (s s' : State) (a : Act)
    (ha : a.isLoop = true) (hs : step c s a = some s') :
    s'.ws = s.ws ∨ ∃ w j, a = .loopDispatch w ∧ s.ws[w]? = some .idle ∧ s'.ws = s.ws.set w (.holding j) :=
  step_loop_ws hw ha hs

/-- **C12 `invalid`.** The one loop-owned field a worker reads, `invalid` of the job it received, is
    never written after that job was handed over: in every log every `wroteInvalid k` precedes
    `dispatched k`.  (The hand-off itself is a channel send/receive: happens-before by the Go
    memory model, which is trusted, not formalised.) -/
theorem C12_invalid_written_before_handoff (c : Cfg) (hw : c.wiring = Wiring.std) (hwf : WfCfg c)
    (acts : List Act) (s : State) (hr : run c (init c) acts = some s) (i j k : Nat)
    (hi : s.log[i]? = some (Ev.wroteInvalid k)) (hj : s.log[j]? = some (Ev.dispatched k)) : i < j := by
  have : Reach c s ∧ Inv9 c s := by
    refine run_induct (c := c) (fun s => Reach c s ∧ Inv9 c s) ?_ acts _ _
      ⟨⟨inv1_init c, inv2_init c, inv3_init c, inv4_init c, inv5_init c⟩, inv9_init c⟩ hr
    intro s a s' hp h
    have R := hp.1
    exact ⟨⟨inv1_step hw hwf R.i1 h, inv2_step hw hwf R.i1 R.i2 h, inv3_step hw hwf R.i1 R.i2 R.i3 h,
            inv4_step hw hwf R.i1 R.i4 h, inv5_step hw R.i5 h⟩, inv9_step hw hwf R hp.2 h⟩
  exact this.2.order i j k hi hj

end Sched

/-! ## Text level -/

namespace Text
open BExpr

/-- **C16 inversion.** For every constraint expression (any nesting of `!`, `&&`, `||`, any tags) and
    every tag assignment, the rewritten `//go:build` expression holds exactly when the original
    holds with the `cff` tag flipped. -/
theorem C16_invert (σ : String → Bool) (e : BExpr) : (rewriteLine e).eval σ = e.eval (flipCff σ) := by
  unfold rewriteLine; rw [collapse_eval, invert_eval]

/-- The rewritten expression never contains `!!`, so the printed line is a valid constraint. -/
theorem C16_printable (e : BExpr) : (rewriteLine e).noDoubleNeg = true := collapse_noDoubleNeg _

/-- **C16 several lines.** A file with several constraint lines (their conjunction) is selected
    after rewriting exactly when the source file is selected with `cff` flipped. -/
theorem C16_lines (σ : String → Bool) (es : List BExpr) :
    (es.map rewriteLine).all (eval σ) = es.all (eval (flipCff σ)) := by
  induction es with
  | nil => rfl
  | cons e es ih => simp [List.all_cons, C16_invert, ih]

/-- Flipping twice is the identity: regenerating from a generated header restores the source's meaning. -/
theorem C16_flip_involutive (σ : String → Bool) : flipCff (flipCff σ) = σ := by
  funext t; unfold flipCff; split <;> simp

/-- Non-vacuity / the defect fixed as F9: `!(!(!cff))` inverts to `!cff`'s negation without `!!`. -/
example : rewriteLine (.not (.not (.not (.tag "cff")))) = .tag "cff" ∧
          invert (.not (.not (.not (.tag "cff")))) = .not (.not (.tag "cff")) := by decide

/-- **C16 output name.** For every `.go` base name: the output differs from the input, test-ness is
    preserved, and distinct inputs have distinct outputs. -/
theorem C16_name (a b : List Char) (ha : goSuf.isSuffixOf a = true) (hb : goSuf.isSuffixOf b = true) :
    genName a ≠ a ∧ testSuf.isSuffixOf (genName a) = testSuf.isSuffixOf a ∧ (genName a = genName b → a = b) :=
  ⟨genName_ne a ha, genName_test_iff a ha, genName_injective a b ha hb⟩

/-- **C17 sorted emission.** Whatever order Go's map iteration yields, the emitted (sorted) list is the same. -/
theorem C17_sorted_emission {α : Type} (le : α → α → Bool)
    (htrans : ∀ a b c, le a b = true → le b c = true → le a c = true)
    (htotal : ∀ a b, (le a b || le b a) = true) (hanti : ∀ a b, le a b = true → le b a = true → a = b)
    (l₁ l₂ : List α) (h : l₁.Perm l₂) : l₁.mergeSort le = l₂.mergeSort le :=
  sorted_emission le htrans htotal hanti l₁ l₂ h

/-- **C17 prologue.** The hoisted argument expressions come out in source-position order for every
    iteration order of the `exprs` map. -/
theorem C17_prologue_order (l₁ l₂ : List (Nat × String)) (h : l₁.Perm l₂)
    (hdistinct : ∀ a ∈ l₁, ∀ b ∈ l₁, a.1 = b.1 → a = b) :
    (l₁.mergeSort (fun a b => decide (a.1 ≤ b.1))).map Prod.snd = (l₂.mergeSort (fun a b => decide (a.1 ≤ b.1))).map Prod.snd :=
  prologue_order_independent l₁ l₂ h hdistinct

/-- **C13 alias freshness.** A newly synthesised import name is never one already taken in the file,
    it is recorded as taken, and two different new import paths never get the same name. -/
theorem C13_alias_fresh (p1 a1 p2 a2 : String) (st : AliasSt) (h1 : st.addImports.lookup p1 = none)
    (h2 : (printImportAlias p1 a1 st).2.addImports.lookup p2 = none) :
    (printImportAlias p1 a1 st).1 ∉ st.aliases ∧
    (printImportAlias p1 a1 st).1 ∈ (printImportAlias p1 a1 st).2.aliases ∧
    (printImportAlias p2 a2 (printImportAlias p1 a1 st).2).1 ≠ (printImportAlias p1 a1 st).1 :=
  ⟨(printImportAlias_fresh p1 a1 st h1).1, (printImportAlias_fresh p1 a1 st h1).2,
   printImportAlias_distinct p1 a1 p2 a2 st h1 h2⟩

end Text

namespace Emitter

/-- **C18 stack.** Each emitter combined with `EmitterStack`, however nested, receives exactly the
    events it would receive alone: the receivers of a stack are the receivers of its arguments, in
    order, with multiplicity. -/
theorem C18_stack {Event : Type} (es : List Em) (evs : List Event) :
    (mkStack es).deliver evs = es.flatMap (fun e => e.deliver evs) := deliver_mkStack es evs

theorem C18_stack_empty {Event : Type} (evs : List Event) : (mkStack []).deliver evs = [] := by
  simp [mkStack, Em.deliver, Em.receivers, Em.atoms, Atom.leafId]

theorem C18_stack_single (e : Em) : mkStack [e] = e := rfl

end Emitter

/-! ## Generated code: one job body -/

namespace Gen

/-- **C04 containment (task body).** No panic escapes a generated task body, whatever the task
    shape, the scenario and the store; without the recover block it would. -/
theorem C04_no_escape (t : Task) (sc : Scenario) (s : Store) : (runTask .std t sc s).crashed = false ∧
    (runPred t sc s).crashed = false := ⟨runTask_no_crash t sc s, (runPred_never_fails t sc s).2.1⟩

/-- **C04 PanicError.** A panicking task function without FallbackWith makes its job fail with the
    panic's own value (the entry names the task and the value's class). -/
theorem C04_panic_error (t : Task) (sc : Scenario) (s : Store) (hg : gateOpen t s = true)
    (ho : sc.fnOut t.k = .panic) (hf : t.fb = false) :
    (runTask .std t sc s).ret = some s!"panic:{t.k}:{sc.vclass 't' t.k 0}" := runTask_panic_error t sc s hg ho hf

/-- **C07 error identity.** The error a task function returns is what its job returns. -/
theorem C07_task_error (t : Task) (sc : Scenario) (s : Store) (hg : gateOpen t s = true)
    (ho : sc.fnOut t.k = .err) (hf : t.fb = false) : (runTask .std t sc s).ret = some s!"err:{t.k}" :=
  runTask_error_passthrough t sc s hg ho hf

/-- **C11 gate.** A task is invoked iff it has no predicate or its predicate returned true; with a
    false predicate nothing is called or emitted, outputs stay zero and the job succeeds. -/
theorem C11_gate (t : Task) (sc : Scenario) (s : Store) :
    (runTask .std t sc s).invoked = gateOpen t s ∧
    (t.pred = true → s.pPanic t.k = false → s.p t.k = false →
      (runTask .std t sc s).ret = none ∧ (runTask .std t sc s).events = [] ∧ (runTask .std t sc s).store.val = s.val) :=
  ⟨runTask_invoked_iff t sc s, fun hp hpp hq => (runTask_pred_false t sc s hp hpp hq).2⟩

/-- **C11 fallback.** With FallbackWith, an error, a panic or a panicking predicate leaves the job
    successful with the fallback values as outputs; on success the function's own results are used. -/
theorem C11_fallback (t : Task) (sc : Scenario) (s : Store) :
    (t.fb = true → ((t.pred = true ∧ s.pPanic t.k = true) ∨ (gateOpen t s = true ∧ sc.fnOut t.k ≠ .ok)) →
      (runTask .std t sc s).ret = none ∧
      (runTask .std t sc s).store.val = (s.setVals t.outs (fallbackVals t)).val) ∧
    (gateOpen t s = true → sc.fnOut t.k = .ok →
      (runTask .std t sc s).store.val =
        (s.setVals t.outs ((List.range t.outs.length).map fun o => taskOut t.k o (t.ins.map s.val))).val) :=
  ⟨fun hf hb => runTask_fallback t sc s hf hb, fun hg ho => (runTask_success t sc s hg ho).2.2⟩

/-- **C18 task events.** One invocation emits exactly one outcome event matching what happened and
    then exactly one TaskDone; a task that is not invoked emits no TaskDone. -/
theorem C18_task_events (t : Task) (sc : Scenario) (s : Store) :
    (gateOpen t s = true →
      ∃ kind cls, (runTask .std t sc s).events = [(kind, cls), ("TaskDone", "-")] ∧ isOutcomeKind kind = true ∧
        (kind = "TaskSuccess" ↔ sc.fnOut t.k = .ok) ∧
        ((kind = "TaskError" ∨ kind = "TaskErrorRecovered") ↔ sc.fnOut t.k = .err) ∧
        ((kind = "TaskPanic" ∨ kind = "TaskPanicRecovered") ↔ sc.fnOut t.k = .panic) ∧
        ((kind = "TaskErrorRecovered" ∨ kind = "TaskPanicRecovered") → t.fb = true)) ∧
    (gateOpen t s = false → ("TaskDone", "-") ∉ (runTask .std t sc s).events) := by
  refine ⟨runTask_events_invoked t sc s, ?_⟩
  intro hg hm
  rcases runTask_events_not_invoked t sc s hg with h | ⟨c, h, _⟩ | ⟨c, h, _⟩ <;> rw [h] at hm <;> simp at hm


/-! ## Generated code: structure of the job list -/

/-- **C02 enqueue order.** For every acyclic flow, each generated job lists as `Dependencies` only
    jobs enqueued before it, and every task and predicate is enqueued exactly once — so the
    scheduler theorems (C01, C05, C07 …) apply to the generated job list. -/
theorem C02_topo_sound (p : Prog) (hac : Acyclic p) :
    (∀ (pos : Nat) (j : Job), (genJobs p)[pos]? = some j → ∀ d ∈ j.deps, d < pos) ∧
    (genJobs p).length = (funcs p).length := genJobs_deps_before p hac

/-- **C02 listing order.** The value denoted for every type does not depend on the order in which
    the tasks are listed in the directive (given unique providers, which validation enforces). -/
theorem C02_order_independent (p₁ p₂ : Prog) (sc : Scenario) (hparams : p₁.params = p₂.params)
    (hperm : p₁.tasks.Perm p₂.tasks) (huniq : UniqueProviders p₁.tasks) (fuel : Nat) (τ : Ty) :
    valueOf p₁ sc fuel τ = valueOf p₂ sc fuel τ := valueOf_perm p₁ p₂ sc hparams hperm huniq fuel τ

/-- **C02 concurrency limit.** The denoted values do not depend on the concurrency limit. -/
theorem C02_conc_independent (p : Prog) (sc : Scenario) (n : Option Nat) (fuel : Nat) (τ : Ty) :
    valueOf { p with conc := n } sc fuel τ = valueOf p sc fuel τ := valueOf_conc_independent p sc n fuel τ

/-- **C10 elements and End hooks.** A slice of length n (also nil/empty) yields exactly the element
    jobs (i, s[i]), i < n, each with its own copy of index and value; its End job, if any, comes
    right after them and lists exactly those n jobs as dependencies; all dependencies point backwards. -/
theorem C10_slice_jobs (base : Nat) (c : Coll) :
    (sliceJobs base c).filterMap (fun j => match j.body with | .sliceElem s i v => some (s, i, v) | _ => none)
      = (List.range (collN c)).map (fun i => (c.id, i, sliceElem c.id i)) ∧
    (c.hasEnd = true → (sliceJobs base c)[collN c]? =
      some { body := .sliceEnd c.id, deps := (List.range (collN c)).map (base + ·) }) ∧
    (∀ (i : Nat) (j : PJob), (sliceJobs base c)[i]? = some j → ∀ d ∈ j.deps, d < base + i) :=
  ⟨sliceJobs_elements base c, fun h => (sliceJobs_end_deps base c h).1, sliceJobs_deps_before base c⟩

theorem C10_map_end (base : Nat) (c : Coll) (h : c.hasEnd = true) :
    (mapJobs base c)[collN c]? = some { body := .mapEnd c.id, deps := (List.range (collN c)).map (base + ·) } :=
  mapJobs_end_deps base c h

/-! ## Validation (C14) -/

/-- **C14 soundness of acceptance (checked conditions).** A flow the validation accepts has: no
    duplicate in Params; a task is output-less iff it carries Invoke(true); FallbackWith only on
    error-returning tasks; constant Invoke arguments; an emitter if anything is instrumented; no
    type provided by two functions or twice by one; every task/predicate output consumed (by
    Results, another function, or it is an Invoke sentinel); and no cycle found by the search. -/
theorem C14_accept_facts (p : Prog) (h : validateFlow p = []) : AcceptFacts p := accept_facts p h

/-- **C14 soundness and completeness.** The validation accepts a flow **iff** it is well-formed in
    the declarative sense of the property: Params distinct; output-less ⇔ Invoke(true); FallbackWith
    only on error-returning tasks; at most one provider per type (two functions, or one function
    twice); no Params type also provided by a task; every consumed type (task input, predicate
    input, Results target) has a provider or is a Param; every Param and every task/predicate
    output is consumed; the dependency relation through tasks and predicates is acyclic.
    `WellFormed` mentions neither the breadth-first walk, nor the memoised cycle search, nor fuel.
    `SmallTypes` is the encoding side condition (user types < 1000; sentinels are 1000+k, 2000+k). -/
theorem C14_sound_complete (p : Prog) (hs : SmallTypes p) (hd : DistinctIds p) :
    validateFlow p = [] ↔ WellFormed p := validateFlow_iff_wellFormed p hs hd

/-- **C14 cycle search, completeness.** The memoised depth-first search reports a cycle only if
    there is one: on an acyclic function graph it answers "no cycle" (with `C14_accept_acyclic`:
    exactly when there is none), and the fuel of the model's recursion is never exhausted. -/
theorem C14_cycle_search_complete (p : Prog) (h : Acyclic p) : hasCycle p = false :=
  hasCycle_false_of_acyclic p h

/-- **C14 cycles.** Every accepted flow is acyclic (through tasks and predicates): the memoised
    depth-first search of internal/cycle.go is sound. -/
theorem C14_accept_acyclic (p : Prog) (h : validateFlow p = []) : Acyclic p := accept_acyclic p h

/-- **C14 ⇒ C02.** For every accepted flow the generated code enqueues every function exactly once
    and after everything it depends on. -/
theorem C14_accept_jobs_ordered (p : Prog) (h : validateFlow p = []) :
    (∀ (pos : Nat) (j : Job), (genJobs p)[pos]? = some j → ∀ d ∈ j.deps, d < pos) ∧
    (genJobs p).length = (funcs p).length := accept_jobs_ordered p h

/-- **C14 Parallel.** A Parallel directive is accepted only if every Slice/Map has element (key,
    value) types assignable to its function's parameters; an unassignable one is rejected. -/
theorem C14_parallel (p : Prog) :
    (validatePar p = [] → ∀ c ∈ p.slices ++ p.maps, c.assignable = true) ∧
    (∀ c ∈ p.slices ++ p.maps, c.assignable = false → validatePar p ≠ []) :=
  ⟨fun h => (accept_par_facts p h).1, fun c hc hn => reject_unassignable p c hc hn⟩

/-- Non-vacuity: a well-formed diamond with a predicate is accepted, its single-defect mutations
    (missing provider, duplicate provider, cycle through the predicate, unused param, unused
    output, stripped Invoke) are rejected with the expected class. -/
example :
    let t0 : Task := { k := 0, ins := [1], outs := [2] }
    let t1 : Task := { k := 1, ins := [1], outs := [3], pred := true, pins := [2] }
    let t2 : Task := { k := 2, ins := [2, 3], outs := [4] }
    let t3 : Task := { k := 3, ins := [4], outs := [], invoke := true }
    let ok : Prog := { params := [1], results := [4], tasks := [t2, t0, t3, t1] }
    validate ok = [] ∧
    validate { ok with tasks := [t2, t3, t1] } = ["no-provider"] ∧
    validate { ok with tasks := [t2, t0, t3, t1, { k := 4, ins := [1], outs := [3] }] } = ["dup-provider"] ∧
    validate { ok with tasks := [t2, t3, t1, { t0 with ins := [3] }] } = ["cycle"] ∧
    validate { ok with params := [1, 9] } = ["unused-param"] ∧
    validate { ok with tasks := [t2, t0, t3, t1, { k := 4, ins := [1], outs := [8] }] } = ["unused-output"] ∧
    validate { ok with tasks := [t2, t0, { t3 with invoke := false }, t1] } = ["invoke"] := by
  decide

end Gen

namespace Text

/-- **C15 prologue.** The hoisted argument expressions are evaluated exactly once each and in
    source order, whatever order the generator's map yields them in. -/
theorem C15_prologue {E : Type} (exprs : List (Nat × E)) :
    (prologue exprs).Perm exprs ∧ (prologue exprs).Pairwise (fun a b => a.1 ≤ b.1) :=
  prologue_once_in_order exprs

/-- **C20 source-map.** Whatever is written only in source-map mode is a comment, so both modes emit
    the same code (the per-site fact "only comments are guarded by sourceMapped" is the differential's). -/
theorem C20_sourcemap (segs : List Seg) : stripComments (render true segs) = stripComments (render false segs) :=
  sourcemap_same_code segs


/-- **C16 splice.** `GenerateFile` copies everything outside the directive calls: with the directive
    spans sorted and disjoint, deleting the generated segments from the output leaves exactly the
    source minus those spans (after the header, which is the inverted tag block), in the same order. -/
theorem C16_splice {α : Type} (src : List α) (pkgOff : Nat) (header : List α) (gens : List (Gen α))
    (h : Ordered pkgOff gens src.length) :
    splice src pkgOff header (eraseGen gens) = header ++ (removeSpans src gens).drop pkgOff ∧
    (filterIdx (fun i => decide (pkgOff ≤ i) && !inSpans gens i) 0 src).Sublist src :=
  ⟨splice_erase_drop src pkgOff header gens h, splice_kept_sublist src pkgOff gens⟩

/-- **C13 directive elimination (partial).** The output of the walker contains a directive exactly
    when some directive was written inside another directive's arguments; so unless directives are
    nested, none is left.  (The nested case is the recorded finding F8; `walker_nested_witness`.) -/
theorem C13_walker_partial (t : Node) : hasDirective (rewrite t) = nestedDirective t ∧
    (nestedDirective t = false → hasDirective (rewrite t) = false) :=
  ⟨hasDirective_rewrite t, walker_partial t⟩

/-- **C17 magic token.** In source-map mode the random token never reaches the output: two runs
    with different tokens (neither occurring in the user's comments) write the same file; in base
    mode no marker is written at all. -/
theorem C17_magic (m1 m2 file : String) (body : List Magic.TTok) (h1 : Magic.Fresh m1 body) (h2 : Magic.Fresh m2 body) :
    Magic.reset m1 file (Magic.render m1 true body) = Magic.reset m2 file (Magic.render m2 true body) ∧
    Magic.render m1 false body = Magic.render m2 false body :=
  ⟨Magic.magic_independent m1 m2 file body h1 h2, Magic.magic_base_independent m1 m2 body⟩

/-- **C20 source-map, markers.** After the magic markers were replaced by line directives the
    source-map output has the same code tokens as the base output. -/
theorem C20_magic_strip (m file : String) (body : List Magic.TTok) :
    Magic.stripComments (Magic.reset m file (Magic.render m true body)) = Magic.stripComments (Magic.render m false body) :=
  Magic.magic_strip m file body

/-- **C15 capture (partial).** A hoisted argument expression keeps its call-site meaning inside the
    generated wrapper if it mentions neither `err` nor an earlier hoisted name.  The `err` case is
    the recorded finding F6 (`Hygiene.err_captured`, a `decide`d witness). -/
theorem C15_capture_partial (ρ : Hygiene.Env) (pre : List Hygiene.Line) (e : Hygiene.Expr)
    (herr : Hygiene.errName ∉ e.fv) (hpre : ∀ l ∈ pre, l.name ∉ e.fv) :
    e.eval (Hygiene.wrapperEnv ρ pre) = e.eval ρ := Hygiene.capture_partial ρ pre e herr hpre

end Text
