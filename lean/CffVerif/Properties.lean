/-
  The property theorems, and nothing else.  Helper lemmas live in the other modules.
  Every theorem here is audited with `#print axioms` on every run (Audit.lean is generated
  from /verif/theorems.json).  "S-run" hypotheses: a standard-wiring configuration `c`, an
  arbitrary action list `acts` (= arbitrary interleaving of caller, loop, workers, cancellation,
  with arbitrary job outcomes) and the state `s` it leads to from `init c`.
-/
import CffVerif.Sched.Simple
import CffVerif.Sched.LogInv
import CffVerif.Sched.ReportInv

namespace Sched

/-! ### C01 — no job before its dependencies succeeded; never twice -/

/-- Whenever a job's body starts, every dependency it names (duplicates, any fan-in, registered
    before or after the dependency finished) has already **ended without error** — for every DAG,
    every `N ≥ 1`, both error modes, every pacing and interleaving. -/
theorem C01_deps_before_start (c : Cfg) (hw : c.wiring = Wiring.std) (hwf : WfCfg c)
    (acts : List Act) (s : State) (hr : run c (init c) acts = some s) (i j : Nat)
    (hi : s.log[i]? = some (Ev.started j)) :
    ∀ d ∈ c.depsOf j, ∃ k, k < i ∧ s.log[k]? = some (Ev.ended d .ok) :=
  (allInv_run hw hwf acts s hr).i3.depsBefore i j hi

/-- No job body is started more than once. -/
theorem C01_at_most_once (c : Cfg) (hw : c.wiring = Wiring.std) (hwf : WfCfg c)
    (acts : List Act) (s : State) (hr : run c (init c) acts = some s) (j : Nat) :
    s.log.count (Ev.started j) ≤ 1 :=
  (allInv_run hw hwf acts s hr).i3.once j

/-- Non-vacuity: a diamond with a duplicated dependency, job 3 enqueued after job 1 already
    finished (the "dependency already done" branch), run to the start of job 3 on two workers. -/
example :
    let c : Cfg := { N := 2, coe := false, emit := false, deps := [[], [0], [0, 0], [1, 2, 1]] }
    ∃ s, run c (init c)
      [.callerSend, .loopEnq, .callerSend, .loopEnq, .callerSend, .loopEnq,
       .loopDispatch 0, .workerDecide 0, .workerEnd 0 .ok false, .workerPost 0, .loopResult,
       .loopDispatch 0, .loopDispatch 1, .workerDecide 0, .workerDecide 1,
       .workerEnd 0 .ok false, .workerPost 0, .loopResult,
       .callerSend, .loopEnq,
       .workerEnd 1 .ok false, .workerPost 1, .loopResult,
       .loopDispatch 1, .workerDecide 1] = some s
      ∧ s.log.getLast? = some (Ev.started 3) ∧ wfCfgB c = true := by
  decide

/-- Without the worker's `invalid` check a job runs although its dependency failed
    (ContinueOnError): the flag matters, the theorem is not vacuous. -/
example :
    let c : Cfg := { N := 1, coe := true, emit := false, deps := [[], [0]],
                     wiring := { workerChecksInvalid := false } }
    ∃ s, run c (init c)
      [.callerSend, .loopEnq, .callerSend, .loopEnq, .loopDispatch 0, .workerDecide 0,
       .workerEnd 0 (.fail 7) false, .workerPost 0, .loopResult, .loopDispatch 0, .workerDecide 0] = some s
      ∧ s.log.getLast? = some (Ev.started 1) ∧ Ev.ended 0 .ok ∉ s.log := by
  decide

/-! ### C03 — bounded concurrency -/

def W.isRunning : W → Bool
  | .running _ => true
  | _ => false

/-- There are exactly `N` worker slots in every reachable state … -/
theorem C03_worker_slots (c : Cfg) (acts : List Act) (s : State)
    (hr : run c (init c) acts = some s) : s.ws.length = c.N := by
  refine run_induct (c := c) (fun s => s.ws.length = c.N) ?_ acts _ _ (by simp [init]) hr
  intro s a s' hp h
  rw [step_ws_length h]; exact hp

/-- … hence at most `N` job bodies execute at any instant, for every graph, mode and schedule. -/
theorem C03_at_most_N_running (c : Cfg) (acts : List Act) (s : State)
    (hr : run c (init c) acts = some s) : (s.ws.filter W.isRunning).length ≤ c.N := by
  have := C03_worker_slots c acts s hr
  exact this ▸ List.length_filter_le _ _

/-- `Concurrency: 0` means `max(GOMAXPROCS, 4)`. -/
def defaultConc (gomaxprocs : Nat) : Nat := if gomaxprocs < 4 then 4 else gomaxprocs
theorem C03_default (g : Nat) : defaultConc g = max g 4 := by
  unfold defaultConc; split <;> omega

/-! ### C09 — cancellation -/

/-- No job is started after the context was cancelled, in either error mode:
    in every log, every `started` event precedes every `cancelled` event. -/
theorem C09_no_start_after_cancel (c : Cfg) (hw : c.wiring = Wiring.std) (acts : List Act) (s : State)
    (hr : run c (init c) acts = some s) (i k j : Nat)
    (hi : s.log[i]? = some Ev.cancelled) (hk : s.log[k]? = some (Ev.started j)) : k < i := by
  have inv : CancelInv s :=
    run_induct (c := c) CancelInv (fun s a s' hp h => cancelInv_step hw hp h) acts _ _ (cancelInv_init c) hr
  exact inv.clean i k _ hi hk (by simp [Bad])

/-- `Wait` never returns nil at an instant where the context is already cancelled. -/
theorem C09_nil_implies_not_cancelled (c : Cfg) (hw : c.wiring = Wiring.std) (acts : List Act) (s : State)
    (hr : run c (init c) acts = some s) (i k : Nat)
    (hi : s.log[i]? = some Ev.cancelled) (hk : s.log[k]? = some (Ev.waitReturned [])) : k < i := by
  have inv : CancelInv s :=
    run_induct (c := c) CancelInv (fun s a s' hp h => cancelInv_step hw hp h) acts _ _ (cancelInv_init c) hr
  exact inv.clean i k _ hi hk (by simp [Bad])

/-- Non-vacuity: a run in which a job starts, the context is cancelled, and a second job is skipped. -/
example :
    let c : Cfg := { N := 1, coe := true, emit := false, deps := [[], []] }
    ∃ s, run c (init c) [.callerSend, .loopEnq, .callerSend, .loopEnq, .loopDispatch 0, .workerDecide 0,
        .cancel, .workerEnd 0 .ok false, .workerPost 0, .loopResult, .loopDispatch 0, .workerDecide 0] = some s
      ∧ Ev.started 0 ∈ s.log ∧ Ev.cancelled ∈ s.log ∧ Ev.skipped 1 .ctx ∈ s.log := by
  decide

/-- Without the worker's context check a job does start after cancellation (the flag matters). -/
example :
    let c : Cfg := { N := 1, coe := false, emit := false, deps := [[]],
                     wiring := { workerChecksCtx := false } }
    ∃ s, run c (init c) [.cancel, .callerSend, .loopEnq, .loopDispatch 0, .workerDecide 0] = some s
      ∧ s.log.getLast? = some (Ev.started 0) ∧ Ev.cancelled ∈ s.log := by
  decide


/-! ### C19 — state reports -/

theorem inv4_run {c : Cfg} (hw : c.wiring = Wiring.std) (hwf : WfCfg c) (acts : List Act) (s : State)
    (hr : run c (init c) acts = some s) : Inv1 c s ∧ Inv4 c s := by
  refine run_induct (c := c) (fun s => Inv1 c s ∧ Inv4 c s) ?_ acts _ _ ⟨inv1_init c, inv4_init c⟩ hr
  intro s a s' hp h
  exact ⟨inv1_step hw hwf hp.1 h, inv4_step hw hwf hp.1 hp.2 h⟩

/-- Every state report ever emitted satisfies: all fields non-negative;
    `Pending = Ready + Waiting + executing` with `0 ≤ executing ≤ Concurrency`;
    `IdleWorkers = Concurrency − executing`; `Concurrency` is the configured limit;
    `Pending ≤` number of jobs submitted before the report; `Waiting ≤` number of those that
    name a dependency.  For every DAG, worker count, mode, and every instant the ticker fires. -/
theorem C19_report_consistent (c : Cfg) (hw : c.wiring = Wiring.std) (hwf : WfCfg c)
    (acts : List Act) (s : State) (hr : run c (init c) acts = some s) (i : Nat) (st : Report)
    (hi : s.log[i]? = some (Ev.report st)) :
    GoodReport c ((s.log.take i).filterMap Ev.sentId).length st :=
  (inv4_run hw hwf acts s hr).2.reports i st hi

/-- Reports stop when the loop exits … -/
theorem C19_stop (c : Cfg) (hw : c.wiring = Wiring.std) (hwf : WfCfg c)
    (acts : List Act) (s : State) (hr : run c (init c) acts = some s) (i k : Nat) (st : Report)
    (hi : s.log[i]? = some Ev.loopExit) (hk : s.log[k]? = some (Ev.report st)) : k < i :=
  (inv4_run hw hwf acts s hr).2.stop i k st hi hk

/-- … and `Wait` returns through its finished arm only after the loop has exited
    (so no report follows a normal completion). -/
theorem C19_fin_after_exit (c : Cfg) (s s' : State) (h : step c s .callerRetFin = some s') :
    s.loop.phase = .exited := (inv_callerRetFin h).2.2.1

/-- The executing count is what the gate bounds: without the gate a report with
    `executing = 2 > N = 1` is reachable (this was defect F1 of the unfixed scheduler). -/
example :
    let c : Cfg := { N := 1, coe := false, emit := true, deps := [[], []],
                     wiring := { gateDispatch := false } }
    ∃ s, run c (init c)
      [.callerSend, .loopEnq, .callerSend, .loopEnq, .loopDispatch 0, .workerDecide 0,
       .workerEnd 0 .ok false, .workerPost 0, .loopDispatch 0, .loopTick] = some s
      ∧ s.log.getLast? = some (Ev.report { pending := 2, ready := 0, waiting := 0, idle := 0, concurrency := 1 }) := by
  decide

end Sched
