/-
  Record types of the facts regenerated from the cff source on every run by
  `harness/cmd/extract` (see `CffVerif/Extracted/Facts.lean`, generated, and
  `CffVerif/Tie/Facts.lean`, the obligations checking them).

  Conventions shared by all records:
  * file paths are relative (to the repository root, or to
    `internal/templates` for template files); there are no line numbers, so
    that facts do not churn when code merely moves;
  * Go source text is printed by go/printer with runs of white space
    collapsed; template actions are printed by text/template/parse;
  * anything the extractor does not recognise is kept as an entry whose text
    starts with `unknown` (or whose `wrapper`/`kind` is `"unknown"`), so the
    corresponding obligation fails instead of passing silently.
-/

namespace Extracted

/-- A template action (`{{ ... }}`) that prints a user expression (a value of
Go type `ast.Expr`, `[]ast.Expr` or `ast.Node` of the template data).

* `file`: template file, relative to `internal/templates`;
* `action`: the action as printed by text/template/parse;
* `wrapper`: the template function the expression is passed to (`"expr"`,
  `"rawExpr"`, `"quote"`, ...), `""` when printed bare, `"unknown"` when the
  extractor cannot decide what the operand is;
* `kind`: how the operand denotes the expression: `"direct"` (a field chain
  ending in an expression field, or a variable assigned from one),
  `"withDot"` (dot inside a `with` over such a value, or dot of a template
  invoked on one), `"rangeElem"` (element of a `range` over one). -/
structure ExprSite where
  file : String
  action : String
  wrapper : String
  kind : String
  deriving DecidableEq, Repr

/-- An iteration whose order is decided by the Go runtime.

* `kind = "range"`: a `for ... range expr` whose operand is map-typed;
* `kind = "call"`: a call of `Keys`, `Iterate` or `Range` on a
  `typeutil.Map` / `sync.Map` (`expr` is the call);
* `kind = "unknown"`: the operand's type could not be resolved (`expr`
  starts with `unknown: `).

`pattern` says why the order of the iteration cannot be observed afterwards.
It is computed conservatively from the loop body and its context
(`harness/cmd/extract/maporder.go`, rules at `classifyRange`), so that moving
a loop to another function does not change it:

* `"set"`: every statement of the body is, possibly under side-effect-free
  `if`s and next to `continue`s, a store into a map (`m[k] = v`), a
  `delete(m, k)`, or a commutative accumulation into an integer variable;
  nothing the body reads is written by it; writes to one map are keyed by the
  loop's own key, or all store the same constant, or all delete;
* `"count"`: as `"set"`, with integer accumulations (`n++`, `n += e`) only;
* `"append-then-sort:<s>"`: the body only appends to the one local slice `s`
  (under such `if`s / `continue`s) and the first statement after the loop
  that mentions `s` sorts it; `detail` is `""` for the natural order of the
  elements (`sort.Strings`, `sort.Ints`, `slices.Sort`), else the source text
  of the comparison (`sort.Slice`, `sort.SliceStable`, `slices.SortFunc`,
  `sort.Sort(conv(s))`) with the slice spelled `_s`: such a sort fixes the
  order only if the comparison tells all elements apart, which is reviewed
  per comparison;
* `"keys-call"` (`kind = "call"`): `detail` is `"range:<pattern>"`, with
  `";less=<comparison>"` appended for a custom sort, when the call is directly
  the operand of a `range` (that loop is then classified as above), else
  `"unknown"`;
* `"unknown:<statement>"`: none of the above; the text is the first statement
  that does not fit and `detail` says why. -/
structure MapRange where
  file : String
  func : String
  expr : String
  kind : String
  pattern : String
  detail : String
  deriving DecidableEq, Repr

/-- A string the generator writes only in source-map mode, or any string
literal of `internal/gen*.go` spelling a line directive.

* `literal`: the value of the string literal written (format string); for a
  concatenation its constant value, or the leading constant operands when the
  rest is not constant; `unknown: <statement>` when what is written does not
  begin with a constant string;
* `isComment`: `literal`, after leading white space, starts with `//` or `/*`
  (false for `unknown` entries);
* `guarded`: the statement lies inside an `if x.sourceMapped { ... }` block,
  or after an `if !x.sourceMapped { return ... }`. -/
structure SMWrite where
  file : String
  func : String
  literal : String
  isComment : Bool
  guarded : Bool
  deriving DecidableEq, Repr

/-! ### Structural facts about the Go text inside the templates

The extractor FLATTENS every template tree (the template of a file and each
`{{define}}` in it; the latter are named `file{name}`): text nodes verbatim, in
document order; every printing action replaced by a placeholder identifier;
every `{{template}}` include by another placeholder, except that an include of
a `{{define}}` whose own text holds a func literal, a `defer`, a `go` or a
`recover()` (directly or through such a define) is EXPANDED in place, and that
define is then not reported on its own; BOTH branches of
`{{if}}` / `{{with}}` / `{{range}}` present (as alternatives: the token that
follows the first branch is the one after the second).  Each byte remembers the stack of
template branches it lies under, its *guards*, written

* `if P` / `unless P` for the two branches of `{{if P}}`,
* `with P` / `without P` for `{{with P}}`,
* `range P` / `norange P` for `{{range P}}`

(`P` as printed by text/template/parse).  The flattened text is tokenised with
go/scanner and examined by a bracket-aware scanner.  Templates of modifier mode
(`internal/modifier/templates`) are reported under `modifier/`. -/

/-- A func literal in the flattened text of a template.

* `index`: position among the literals of the template, by their `func` keyword;
* `depth`: number of enclosing func literals (bodies of func DECLARATIONS do
  not count); `parent`: index of the innermost one;
* `guards`: template branches around the `func` keyword, relative to the
  enclosing literal (at depth 0: relative to the statement calling
  `NewScheduler` in a root template, to the whole template otherwise);
* `isDeferred`: the literal is the operand of `defer` and is called on the spot;
* `hasRecover`: its body calls `recover()` outside any nested literal;
* `isJobBody`: signature `func(ctx <context>.Context) (err error)`;
* `conditional`: `guards` is non-empty, or its `recover()` lies in a template
  branch the `func` keyword does not lie in. -/
structure TmplFn where
  file : String
  index : Nat
  depth : Nat
  parent : Option Nat
  guards : List String
  isDeferred : Bool
  hasRecover : Bool
  isJobBody : Bool
  conditional : Bool
  deriving DecidableEq, Repr

/-- An occurrence of a recognised construct, with the template branches it
lies under (relative to the construct the list is about).  Names:

* `NewScheduler`, `Wait`, `Error`, `Success` (the FlowError/ParallelError and
  FlowSuccess/ParallelSuccess events), `ResultsCopy` (a statement
  `*(...) = ...`), `return`, `include:<template>`;
* defer statements by what the deferred literal does: `defer:Done`,
  `defer:Skipped` (the TaskSkipped sweep), `defer:TaskDone`, `defer:recover`,
  and `defer:ranStore` for `defer X.ran.Store(true)`;
* in job closures: `gate` (`if !p { return nil }`), `ranStore`, `call` (the
  user function: `{{expr .Function.Node}}`/`{{expr .Node}}` or an include of a
  template named `call...`), `fallback` (TaskPanicRecovered /
  TaskErrorRecovered), `TaskError`, `TaskSuccess`;
* anything else the scanner trips over: a name starting with `unknown`. -/
structure Mark where
  guards : List String
  name : String
  deriving DecidableEq, Repr

/-! ### Wiring of the scheduler (`scheduler/scheduler.go`)

`harness/cmd/extract/schedwiring.go` recognises the Scheduler Loop, the worker,
`Wait` and `Enqueue` by their STRUCTURE (not by the names of their locals) and
reports them as ordered lists of *markers*: `name` or `name:detail`, `detail`
being gofmt-printed source text.  A statement that is not recognised becomes a
marker `unknown:<text>`.  Statements under `if verifOn { ... }` and assignments
from `verif*()` calls are the verification hooks and are treated as absent. -/

/-- An arm of the `select` of the Scheduler Loop.

* `kind`: `"send"` (`ch <- v`: the dispatch arm), `"recvOk"` (`v, ok := <-ch`:
  the enqueue arm), `"recvVal"` (`v := <-ch`: the result arm), `"recv"`
  (`<-ch`: the ticker arm), `"default"`, `"unknown"`;
* `comm`: the communication clause, `chan`: its channel operand;
* `chanIsLocalNilable`: the operand is a local variable (or parameter) of the
  function for which `disabledWhen` is non-empty, i.e. the arm can be disabled;
* `disabledWhen`: how that local can be nil, one entry per declaration /
  assignment found anywhere in the function:
  `nil-if:<conds>` (assigned nil under these conditions; `(c)` = inside
  `if c`, `!(c)` = inside its else, `arm[...]`, `case[...]`, `for[...]`,
  `func[...]` for the other enclosing constructs; `true` = unconditionally),
  `closed:<ch>` (assigned nil exactly in `case v, ok := <-ch: if !ok { .. }`),
  `nil-unless:<conds>` (declared without a value, assigned under these
  conditions), `nil-always`, `alias:<x>` (initialised from another variable),
  `set-if:<conds>:<value>` (re-assigned), `unknown:<text>`. -/
structure SelArm where
  kind : String
  comm : String
  chan : String
  chanIsLocalNilable : Bool
  disabledWhen : List String
  deriving DecidableEq, Repr

/-! ### Ownership facts about package scheduler (P28)

Extracted by `harness/cmd/extract/ownership.go` with go/types from the non-test
files of package `scheduler` built without the `verif` tag.  The verification
hooks are treated as absent: `if verifOn { ... }` blocks are skipped, files
`verif_*.go` contribute nothing, and whatever they declare is invisible (the
`verif` fields, calls of hook functions).

*Contexts.*  An access is attributed to the enclosing top-level function or
method (`worker`, `Scheduler.run`, `Config.New`; methods as `Recv.Name` without
the star), followed, for every func literal on the way, by `:defer` (operand of
`defer`, called on the spot), `:go` (started by `go`) or `:lit` (anything else).
Package-level variable initialisers are the context `init`.

*Threads* (`fnThreads`).  A thread is a kind of goroutine, named after its root:
`caller` (everything reachable from an exported function or method), `init`,
and for every `go` statement the context it starts (`worker`, `Scheduler.run`,
`Config.New:go`).  A context is reached through static calls of package-level
functions and methods, through `:defer` literals and literals called on the
spot; so a helper called only from the loop runs on `["Scheduler.run"]`.  A
literal that is stored or passed on and a package function used as a value get
a thread `unknown: ...`; a context nothing reaches has no thread at all. -/

/-- One way a function context touches a field of a struct of package scheduler
(de-duplicated, sorted).

* `struct`, `field`: the struct type declaring the field, and the field;
  `field = "*"` for an escape of the whole struct;
* `kind`:
  * `"read"`; `"write"` (assignment, `op=`, `++`/`--`, assignment to an element
    `x.f[i] = v` or to a sub-field of a struct value `x.f.g = v`; `op=`, `++`
    and element writes also yield a `"read"`);
  * `"init"`: the field is set by a composite literal (the value is in
    `structInits`);
  * `"escape"`: `detail = "&"`: the address of the field (or of a struct
    variable) is taken; `detail = "reslice"`: `x.f[a:b]`, a writable alias of
    what the field holds; otherwise `detail` is the callee (go/types full name,
    `dynamic: <text>` for a function value, prefixed `go ` when started as a
    goroutine) a pointer to the struct (or a slice / map / channel of such) is
    passed to, the callee not being a function of package scheduler;
  * `"unknown"`: the package could not be loaded (`struct` says why);
* `fn`: the context;
* `arm`: the arm of the innermost `select` (of the same context) the access lies
  in: `recv:<chan>`, `send:<chan>`, `default`; `""` outside any select arm and
  for the communication of an arm itself.  `<chan>` does not depend on names of
  locals where avoidable: a field is `Struct.field` (`Scheduler.finishedc`,
  `time.Ticker.C`), a call `call:<callee>`, a local that is only ever assigned
  one such channel (or nil) is that channel, any other local `local:<name>`. -/
structure FieldAccess where
  struct : String
  field : String
  kind : String
  fn : String
  arm : String
  detail : String
  deriving DecidableEq, Repr

end Extracted
