/-
  Record types of the facts regenerated from the cff source on every run by
  `harness/cmd/extract` (see `CffVerif/Extracted/Facts.lean`, generated, and
  `CffVerif/Tie/Facts.lean`, the obligations checking them).

  Conventions shared by all records:
  * file paths are relative (to the repository root, or to
    `internal/templates` for template files); there are no line numbers, so
    that facts do not churn when code merely moves;
  * Go source text is printed by go/printer with runs of white space
    collapsed; template actions are printed by text/template/parse;
  * anything the extractor does not recognise is kept as an entry whose text
    starts with `unknown` (or whose `wrapper`/`kind` is `"unknown"`), so the
    corresponding obligation fails instead of passing silently.
-/

namespace Extracted

/-- A template action (`{{ ... }}`) that prints a user expression (a value of
Go type `ast.Expr`, `[]ast.Expr` or `ast.Node` of the template data).

* `file`: template file, relative to `internal/templates`;
* `action`: the action as printed by text/template/parse;
* `wrapper`: the template function the expression is passed to (`"expr"`,
  `"rawExpr"`, `"quote"`, ...), `""` when printed bare, `"unknown"` when the
  extractor cannot decide what the operand is;
* `kind`: how the operand denotes the expression: `"direct"` (a field chain
  ending in an expression field, or a variable assigned from one),
  `"withDot"` (dot inside a `with` over such a value, or dot of a template
  invoked on one), `"rangeElem"` (element of a `range` over one). -/
structure ExprSite where
  file : String
  action : String
  wrapper : String
  kind : String
  deriving DecidableEq, Repr

/-- An iteration whose order is decided by the Go runtime.

* `kind = "range"`: a `for ... range expr` whose operand is map-typed;
* `kind = "call"`: a call of `Keys`, `Iterate` or `Range` on a
  `typeutil.Map` / `sync.Map` (`expr` is the call);
* `kind = "unknown"`: the operand's type could not be resolved (`expr`
  starts with `unknown: `). -/
structure MapRange where
  file : String
  func : String
  expr : String
  kind : String
  deriving DecidableEq, Repr

/-- A string the generator writes only in source-map mode, or any string
literal of `internal/gen*.go` spelling a line directive.

* `literal`: the value of the string literal written (format string), or
  `unknown: <statement>` when what is written is not a literal;
* `isComment`: `literal`, after leading white space, starts with `//` or `/*`
  (false for `unknown` entries);
* `guarded`: the statement lies inside an `if x.sourceMapped { ... }` block,
  or after an `if !x.sourceMapped { return ... }`. -/
structure SMWrite where
  file : String
  func : String
  literal : String
  isComment : Bool
  guarded : Bool
  deriving DecidableEq, Repr

end Extracted
