/-
  Property theorems that compose the scheduler model S with the generated-code models G
  (they need both `Properties.lean` and the composition modules, hence a second file).
  The Parallel-level composition theorems (C04_par_no_escape, C07_par_error, C08_par_*,
  C10_calls_complete, C10_end_last, C10_end_never_after_failure …) are stated, with their
  docstrings, in `Gen/ParCompose.lean` and registered from there.
-/
import CffVerif.Properties
import CffVerif.Gen.Compose
import CffVerif.Gen.FlowRun
import CffVerif.Gen.DenoteOrder
import CffVerif.Gen.OrderInv

namespace Gen
open Sched (Ev Outcome)

/-! ### C02 — the generated Flow computes the dataflow, whatever the schedule -/

/-- **C02 schedule independence.** For every flow the validation accepts, every worker count,
    either error mode and every run of the scheduler on the generated job list (any interleaving,
    cancellation, early exit …) whose logged outcomes are those of the generated bodies: each body
    that ended did exactly what it does in the sequential reference execution `ideal` (same call,
    same arguments — the values returned by the unique providers —, same returned error, same
    events), and everything those bodies wrote equals the reference store; nothing else was written. -/
theorem C02_schedule_independent (p : Prog) (sc : Scenario) (hacc : validateFlow p = []) (hs : SmallTypes p)
    (hd : DistinctIds p) (c : Sched.Cfg) (hdeps : c.deps = (genJobs p).map (·.deps))
    (hw : c.wiring = Sched.Wiring.std) (hN : 1 ≤ c.N) (acts : List Sched.Act) (s : Sched.State)
    (hr : Sched.run c (Sched.init c) acts = some s) (hcons : (replay p sc s.log).2 = true) :
    (∀ j o, Ev.ended j o ∈ s.log →
      ∃ job r ri, (genJobs p)[j]? = some job ∧ (j, r) ∈ replayTrace p sc s.log ∧
        idealRes p sc j = some ri ∧ SameRes r ri ∧ (o = Outcome.ok ↔ ri.ret = none) ∧ o ≠ Outcome.goexit) ∧
    (∀ j o, Ev.ended j o ∈ s.log → ∀ x ∈ writesAt p j,
      (replay p sc s.log).1.get x = (ideal p sc).store.get x) ∧
    (∀ x, (∀ j o, Ev.ended j o ∈ s.log → x ∉ writesAt p j) →
      (replay p sc s.log).1.get x = (start p).get x) :=
  schedule_independent p sc hacc hs hd c hdeps hw hN acts s hr hcons

/-- **C02 refinement.** If the flow returns nil (fail-fast, every job enqueued), the closure
    variables are exactly those of the reference execution, every task and predicate job ended
    exactly once having started exactly once, with the reference call and arguments — so each
    task function was called once (not at all if its predicate is false: that is what `ideal`
    does), and the Results copy (`flowEnd`) writes the reference value into every target. -/
theorem C02_flow_refines_ideal (p : Prog) (sc : Scenario) (hacc : validateFlow p = []) (hs : SmallTypes p)
    (hd : DistinctIds p) (c : Sched.Cfg) (hdeps : c.deps = (genJobs p).map (·.deps))
    (hw : c.wiring = Sched.Wiring.std) (hN : 1 ≤ c.N) (acts : List Sched.Act) (s : Sched.State)
    (hr : Sched.run c (Sched.init c) acts = some s) (hcons : (replay p sc s.log).2 = true)
    (hcoe : c.coe = false) (hnil : Ev.waitReturned [] ∈ s.log) (hall : s.caller.sent = (genJobs p).length) :
    (replay p sc s.log).1 = (ideal p sc).store ∧
    (flowEnd p [] (replay p sc s.log).1).written =
      (List.range p.results.length).map (fun i => (i, (ideal p sc).store.val (p.results.getD i 0))) ∧
    (∀ j, j < (genJobs p).length →
      s.log.countP (Ev.isEndedOf j) = 1 ∧ s.log.count (Ev.started j) = 1 ∧
      ∃ r ri, (j, r) ∈ replayTrace p sc s.log ∧ idealRes p sc j = some ri ∧ SameRes r ri ∧ ri.ret = none) := by
  obtain ⟨h1, _, h3⟩ := flow_refines_ideal p sc hacc hs hd c hdeps hw hN acts s hr hcons hcoe hnil hall
  refine ⟨h1, ?_, h3⟩
  rw [(flowEnd_results p [] _).2 rfl, h1]

/-- **C02 listing order.** Relisting the tasks of an accepted flow in any other order gives a flow
    that is accepted too (C14_order) and whose reference execution computes the same value for
    every type — hence, with `C02_flow_refines_ideal`, the same Results for every schedule, worker
    count and concurrency limit (`Gen.C02_results_written_independent` states that combination,
    and equates the values with the declarative denotation `valueOf`). -/
theorem C02_listing_order (p₁ : Prog) (ts : List Task) (hperm : p₁.tasks.Perm ts) (sc : Scenario)
    (h₁ : validateFlow p₁ = []) (hs : SmallTypes p₁) (hd : DistinctIds p₁) (hnf : NoFailure p₁ sc) (τ : Ty) :
    validateFlow { p₁ with tasks := ts } = [] ∧
    (ideal p₁ sc).store.val τ = (ideal { p₁ with tasks := ts } sc).store.val τ ∧
    (ideal p₁ sc).store.val τ = valueOf p₁ sc (p₁.tasks.length + 1) τ := by
  have h₂ := (C14_order p₁ { p₁ with tasks := ts } ts hperm rfl hs hd).mp h₁
  exact ⟨h₂, C02_order_independent_values p₁ { p₁ with tasks := ts } sc h₁ h₂ hs hd rfl rfl hperm hnf τ,
    ideal_eq_valueOf p₁ sc h₁ hs hd hnf _ (Nat.le_refl _) τ⟩

/-! ### C12 — ownership of the closure variables (partial: the Go memory model is trusted) -/

/-- **C12 variable ownership.** In the code generated for an accepted flow, the closure variables
    (`v<τ>`, `p<k>`, `p<k>PanicRecover`, `task<k>.ran`) obey a single-writer discipline: two
    different jobs never write the same variable, no job writes a Params variable, and whenever a
    job reads a variable that another job writes, the writer is among the reader's `Dependencies`.
    With C01 (a job starts only after its dependencies ended, and the hand-offs `ended → resultSeen
    → dispatched → started` are channel operations) every conflicting pair of accesses is ordered. -/
theorem C12_var_ownership (p : Prog) (hacc : validateFlow p = []) (hs : SmallTypes p) (hd : DistinctIds p) :
    (∀ i j, i < (genJobs p).length → j < (genJobs p).length → i ≠ j →
      ∀ x, x ∈ writesAt p i → x ∉ writesAt p j) ∧
    (∀ j, j < (genJobs p).length → ∀ τ ∈ p.params, Var.val τ ∉ writesAt p j) ∧
    (∀ i j, i < (genJobs p).length → j < (genJobs p).length →
      ∀ x, x ∈ readsAt p j → x ∈ writesAt p i → i ∈ (jobAt p j).deps) :=
  discipline p hacc hs hd

/-! ### C07 / C18 — the end of the generated closure -/

/-- **C07 Results and error identity.** The closure returns what `Wait` returned, unchanged; the
    Results targets are written only after `Wait` returned nil, and are untouched on any error. -/
theorem C07_results_untouched (p : Prog) (wait : List String) (st : Store) :
    (flowEnd p wait st).ret = wait ∧
    (wait ≠ [] → (flowEnd p wait st).written = []) ∧
    (wait = [] → (flowEnd p wait st).written =
      (List.range p.results.length).map fun i => (i, st.val (p.results.getD i 0))) :=
  ⟨flowEnd_ret p wait st, (flowEnd_results p wait st).1, (flowEnd_results p wait st).2⟩

/-- **C18 directive events.** Every execution of an instrumented flow reports exactly one outcome —
    FlowSuccess iff nil is returned, else FlowError with the returned error — then, last, exactly
    one FlowDone; an uninstrumented flow reports nothing at directive level. -/
theorem C18_directive_events (p : Prog) (wait : List String) (st : Store) :
    ((flowEnd p wait st).events.filter DEv.isDirective =
      if p.instrDir then
        [if wait.isEmpty then ("FlowSuccess", -1, "-") else ("FlowError", -1, retCls wait), ("FlowDone", -1, "-")]
      else []) ∧
    (p.instrDir = true → (flowEnd p wait st).events.getLast? = some ("FlowDone", -1, "-")) :=
  ⟨flowEnd_directive_events p wait st, flowEnd_done_last p wait st⟩

/-- **C18 skipped.** The final sweep reports TaskSkipped exactly once for each instrumented task
    that did not run (in `tasks` order, with the returned error) and for no other. -/
theorem C18_skipped (p : Prog) (wait : List String) (st : Store) :
    (flowEnd p wait st).events.filter (fun e => !DEv.isDirective e) =
      ((instrTasksInOrder p).filter fun k => !st.ran k).map (skippedEv (retCls wait)) :=
  flowEnd_skipped p wait st

end Gen
