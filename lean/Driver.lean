/-
  Line-protocol oracle.  Usage:  driver sched < trace-file
  Reads the output of harness/cmd/schedrun, replays each scenario's `T` lines through the
  scheduler model (CffVerif.Sched.Replay) and prints, per scenario,
      R <idx> ok <loopEvents> <workerEvents> <lateEnqHits> <invalidAtReg>
   or R <idx> div <kind> :: <detail>       (one line per divergence)
  and a final `driver-summary` line.
-/
import CffVerif.Sched.Replay
import CffVerif.Text.Check
import CffVerif.Gen.Check
import CffVerif.Gen.Denote

open Sched Sched.Replay

structure DAcc where
  idx : String := ""
  lines : Array (List String) := #[]
  inScn : Bool := false
  scenarios : Nat := 0
  diverged : Nat := 0
  events : Nat := 0

def flush (a : DAcc) : IO DAcc := do
  if !a.inScn then return a
  let rs := replay a.lines.toList
  if rs.divs.isEmpty then
    IO.println s!"R {a.idx} ok {rs.loopEvents} {rs.workerEvents} {rs.lateEnqHits} {rs.invalidAtReg}"
  else
    for d in rs.divs do
      IO.println s!"R {a.idx} div {d.kind} :: {d.detail}"
  return { a with inScn := false, lines := #[], scenarios := a.scenarios + 1,
                  diverged := a.diverged + (if rs.divs.isEmpty then 0 else 1),
                  events := a.events + rs.loopEvents + rs.workerEvents }

partial def schedLoop (h : IO.FS.Stream) (a : DAcc) : IO DAcc := do
  let l ← h.getLine
  if l.isEmpty then flush a
  else
    let t := toks (l.trimRight)
    match t with
    | "scn" :: idx :: _ =>
      let a ← flush a
      schedLoop h { a with idx := idx, inScn := true }
    | "T" :: rest => schedLoop h { a with lines := a.lines.push rest }
    | ["end"] => schedLoop h (← flush a)
    | _ => schedLoop h a

structure TAcc where
  lines : Nat := 0
  checked : Nat := 0
  diverged : Nat := 0
  sawEnd : Bool := false

partial def textLoop (h : IO.FS.Stream) (a : TAcc) : IO TAcc := do
  let l ← h.getLine
  if l.isEmpty then return a
  else
    let t := toks (l.trimRight)
    let ds := Text.Check.checkLine t
    let kind := t.getD 0 ""
    let isCase := ["BT", "AL", "ES", "ES0", "ES1", "GF", "FS", "DT", "SM", "MN", "MNB", "X"].contains kind
    for d in ds do
      IO.println s!"R {kind} div {d.1} :: {d.2}"
    textLoop h { lines := a.lines + 1, checked := a.checked + (if isCase then 1 else 0),
                 diverged := a.diverged + (if ds.isEmpty then 0 else 1), sawEnd := a.sawEnd || kind == "END" }

/-! prog mode: harness/cmd/progrun output (harness/PROTOCOL.md) -/

structure PAcc where
  prog : Option Gen.Prog := none
  known : Bool := false
  accepted : Bool := false
  sc : Option Gen.Scenario := none
  obs : Gen.Check.Obs := {}
  defaultConc : Nat := 4
  programs : Nat := 0
  scenarios : Nat := 0
  checked : Nat := 0
  diverged : Nat := 0
  knownDiverged : Nat := 0
  jobsOrdered : Nat := 0
  needDeps : Bool := false      -- a `G` line of an accepted flow announced a parsable file; its `GD` line is due
  depsChecked : Nat := 0

def reportDivs (a : PAcc) (sid : String) (ds : List (String × String)) : IO PAcc := do
  match a.prog with
  | none => return a
  | some p =>
    let tag := if a.known then "KDIV" else "DIV"
    for d in ds do
      IO.println s!"{tag} {p.pid} {sid} {p.stream} {d.1} :: {d.2}"
    if ds.isEmpty then return a
    else if a.known then return { a with knownDiverged := a.knownDiverged + 1 }
    else return { a with diverged := a.diverged + 1 }

/-- A program whose `G` line promised a parsable generated Flow must have brought a `GD` line. -/
def flushDeps (a : PAcc) : IO PAcc := do
  if !a.needDeps then return a
  let pid := (a.prog.map (·.pid)).getD 0
  reportDivs { a with needDeps := false } "-" [("deps", s!"pid {pid}: no GD line for an accepted flow whose generated file parses")]

partial def progLoop (h : IO.FS.Stream) (a : PAcc) : IO PAcc := do
  let l ← h.getLine
  if l.isEmpty then flushDeps a
  else
    let t := toks (l.trimRight)
    match t with
    | "progrun" :: rest =>
      progLoop h { a with defaultConc := (Gen.kvN rest "defaultconc").getD 4 }
    | ["prog", pid, kind] =>
      let a ← flushDeps a
      progLoop h { a with prog := some { pid := (pid.toNat?).getD 0, kind := if kind == "par" then .par else .flow },
                          known := false, accepted := false, sc := none, programs := a.programs + 1 }
    | "P" :: _ =>
      match a.prog with
      | some p =>
        let p' := p.addLine t
        progLoop h { a with prog := some p', known := p'.stream.startsWith "known:" }
      | none => progLoop h a
    | "A" :: _ =>
      match a.prog with
      | some p =>
        let ds := Gen.Check.checkAccept p t
        -- the enqueue order of the generated jobs respects the dependencies (C02_topo_sound, executable check)
        let ordered := p.kind == .par || !(Gen.validate p).isEmpty || Gen.depsBefore (Gen.genJobs p)
        let ds := if ordered then ds else ds ++ [("topo", s!"pid {p.pid}: model's job order does not respect dependencies")]
        let a ← reportDivs { a with accepted := t.getD 2 "" == "accept", checked := a.checked + 1,
                                    jobsOrdered := a.jobsOrdered + (if ordered then 1 else 0) } "-" ds
        progLoop h a
      | none => progLoop h a
    | "G" :: _ =>
      match a.prog with
      | some p =>
        -- the structural check of the job graph applies when cff and the model both accept the flow
        let due := a.accepted && p.kind == .flow && (Gen.validate p).isEmpty && Gen.kvB (t.drop 2) "parses"
        let a ← reportDivs { a with checked := a.checked + 1, needDeps := due } "-" (Gen.Check.checkStatic p t)
        progLoop h a
      | none => progLoop h a
    | "GD" :: _ :: rest =>
      match a.prog with
      | some p =>
        if a.needDeps then
          -- C11: the generated Dependencies lists are those of `genJobs p` (Gen.C11_pred_deps)
          let a ← reportDivs { a with checked := a.checked + 1, depsChecked := a.depsChecked + 1, needDeps := false } "-"
            (Gen.Check.checkDeps p rest)
          progLoop h a
        else progLoop h a
      | none => progLoop h a
    | "S" :: _ =>
      progLoop h { a with sc := some (Gen.parseScenario t), obs := {}, scenarios := a.scenarios + 1 }
    | "O" :: _ :: _ :: rest =>
      progLoop h { a with obs := a.obs.addLine rest }
    | "E" :: _ :: sid :: _ =>
      match a.prog, a.sc with
      | some p, some sc =>
        let ds := Gen.Check.checkScenario p sc a.defaultConc a.obs
        -- no failing function, no fallback, no cancellation: the reference execution must equal the declarative denotation
        let plain := p.kind == .flow && sc.cancel == "none" && sc.fn.all (fun x => x.2 == .ok) && sc.pred.all (fun x => x.2 != .panic)
        let ds := if plain && !(Gen.idealAgreesWithDenote p sc) then ds ++ [("denote", s!"pid {p.pid}: reference execution differs from valueOf")] else ds
        let a ← reportDivs { a with checked := a.checked + 1 } sid ds
        progLoop h { a with sc := none }
      | _, _ => progLoop h a
    | _ => progLoop h a

def main (args : List String) : IO UInt32 := do
  let stdin ← IO.getStdin
  match args with
  | ["sched"] =>
    let a ← schedLoop stdin {}
    IO.println s!"driver-summary scenarios={a.scenarios} diverged={a.diverged} events={a.events}"
    return 0
  | ["text"] =>
    let a ← textLoop stdin {}
    IO.println s!"driver-summary lines={a.lines} checked={a.checked} diverged={a.diverged} complete={if a.sawEnd then 1 else 0}"
    return 0
  | ["prog"] =>
    let a ← progLoop stdin {}
    IO.println s!"driver-summary programs={a.programs} scenarios={a.scenarios} checked={a.checked} diverged={a.diverged} known_diverged={a.knownDiverged} jobs_ordered={a.jobsOrdered} deps_checked={a.depsChecked}"
    return 0
  | _ =>
    IO.eprintln "usage: driver sched|text|prog"
    return 2
