/-
  Line-protocol oracle.  Usage:  driver sched < trace-file
  Reads the output of harness/cmd/schedrun, replays each scenario's `T` lines through the
  scheduler model (CffVerif.Sched.Replay) and prints, per scenario,
      R <idx> ok <loopEvents> <workerEvents> <lateEnqHits> <invalidAtReg>
   or R <idx> div <kind> :: <detail>       (one line per divergence)
  and a final `driver-summary` line.
-/
import CffVerif.Sched.Replay

open Sched Sched.Replay

structure DAcc where
  idx : String := ""
  lines : Array (List String) := #[]
  inScn : Bool := false
  scenarios : Nat := 0
  diverged : Nat := 0
  events : Nat := 0

def flush (a : DAcc) : IO DAcc := do
  if !a.inScn then return a
  let rs := replay a.lines.toList
  if rs.divs.isEmpty then
    IO.println s!"R {a.idx} ok {rs.loopEvents} {rs.workerEvents} {rs.lateEnqHits} {rs.invalidAtReg}"
  else
    for d in rs.divs do
      IO.println s!"R {a.idx} div {d.kind} :: {d.detail}"
  return { a with inScn := false, lines := #[], scenarios := a.scenarios + 1,
                  diverged := a.diverged + (if rs.divs.isEmpty then 0 else 1),
                  events := a.events + rs.loopEvents + rs.workerEvents }

partial def schedLoop (h : IO.FS.Stream) (a : DAcc) : IO DAcc := do
  let l ← h.getLine
  if l.isEmpty then flush a
  else
    let t := toks (l.trimRight)
    match t with
    | "scn" :: idx :: _ =>
      let a ← flush a
      schedLoop h { a with idx := idx, inScn := true }
    | "T" :: rest => schedLoop h { a with lines := a.lines.push rest }
    | ["end"] => schedLoop h (← flush a)
    | _ => schedLoop h a

def main (args : List String) : IO UInt32 := do
  let stdin ← IO.getStdin
  match args with
  | ["sched"] =>
    let a ← schedLoop stdin {}
    IO.println s!"driver-summary scenarios={a.scenarios} diverged={a.diverged} events={a.events}"
    return 0
  | _ =>
    IO.eprintln "usage: driver sched"
    return 2
