import CffVerif.Sched.Model
import CffVerif.Sched.Replay
import CffVerif.Sched.Basic
import CffVerif.Sched.Simple
import CffVerif.Properties
