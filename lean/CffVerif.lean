import CffVerif.Sched.Model
import CffVerif.Sched.Replay
