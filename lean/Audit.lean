import CffVerif
