import CffVerif
#print axioms Sched.C01_at_most_once
#print axioms Sched.C01_deps_before_start
#print axioms Sched.C03_at_most_N_running
#print axioms Sched.C03_default
#print axioms Sched.C03_worker_slots
#print axioms Sched.C09_nil_implies_not_cancelled
#print axioms Sched.C09_no_start_after_cancel
