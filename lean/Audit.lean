import CffVerif
#print axioms Sched.C01_at_most_once
#print axioms Sched.C01_deps_before_start
#print axioms Sched.C03_at_most_N_running
#print axioms Sched.C03_default
#print axioms Sched.C03_worker_slots
#print axioms Sched.C05_measure
#print axioms Sched.C05_progress
#print axioms Sched.C05_terminates
#print axioms Sched.C06_no_stuck_goroutine
#print axioms Sched.C06_post_never_blocks
#print axioms Sched.C09_nil_implies_not_cancelled
#print axioms Sched.C09_no_start_after_cancel
#print axioms Sched.C19_fin_after_exit
#print axioms Sched.C19_report_consistent
#print axioms Sched.C19_stop
