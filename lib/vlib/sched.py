"""S group: scheduler properties C01 C03 C05 C06 C07 C08 C09 C19 (and the scheduler half of C12).

Per run on one tree: build harness/cmd/schedrun against /repo (-tags verif), run the scenario
set of the tier, replay every trace through the Lean model (driver), collect
  * hook-free oracle verdicts per property (O lines),
  * divergence kinds of the trace replay (R lines).
The artefacts are cached by (tree hash, seed, tier) so the properties of the group share one run.
"""
import json, os, re, shutil, subprocess, time
from . import common as C
from . import lean as L

PROPS = ["C01", "C03", "C05", "C06", "C07", "C08", "C09", "C19", "C10"]

# Divergence kinds each property's theorems depend on (DESIGN §3).
SUBSCRIBE = {
    "C01": ["loop.dispatch-not-front", "loop.dispatch-empty", "loop.enq-order", "loop.counter.waiting",
            "loop.counter.ready", "loop.result-unexpected", "xcheck.double-dispatch", "xcheck.double-receive",
            "xcheck.disp-recv", "worker.decision", "worker.order"],
    "C03": ["wiring.cap.ready", "worker.two-jobs", "worker.order", "xcheck.double-receive"],
    "C05": ["wiring.cap.enqueue", "wiring.cap.ready", "wiring.cap.done", "loop.enq-order", "loop.exit-early",
            "loop.exit-late", "loop.counter.pending", "loop.counter.ongoing", "loop.counter.waiting",
            "loop.counter.ready", "loop.counter.enqnil", "loop.dispatch-not-front", "loop.dispatch-empty",
            "loop.dispatch-while-ongoing>=N", "loop.result-unexpected", "worker.order", "worker.two-jobs",
            "caller.fifo", "xcheck.disp-recv", "xcheck.result-unposted"],
    "C06": ["loop.dispatch-while-ongoing>=N", "wiring.cap.done", "loop.exit-early", "loop.exit-late",
            "loop.counter.ongoing", "worker.order"],
    "C07": ["loop.exit-early", "loop.exit-late", "loop.err", "wait.result", "worker.post-class",
            "loop.counter.pending", "loop.counter.enqnil", "xcheck.result-unposted"],
    "C08": ["worker.decision", "loop.err", "wait.result", "worker.post-class", "loop.exit-early",
            "loop.exit-late", "xcheck.result-unposted"],
    "C09": ["worker.decision", "wait.ctx-arm", "wait.result"],
    "C19": ["loop.counter.pending", "loop.counter.ongoing", "loop.counter.waiting", "loop.counter.ready",
            "loop.dispatch-while-ongoing>=N", "report.fields"],
}

TIERS = {
    # exhaustive: all DAGs up to this many jobs x {ok,fail}^n x N in {1,2,3} x 2 modes x 2 pacings
    "quick":    dict(exhaustive=4, random=2500, maxjobs=14, maxn=8, leakfam=400, perturb=30, seeds=1, blockers=80, capacity=60),
    "thorough": dict(exhaustive=4, random=20000, maxjobs=60, maxn=64, leakfam=3000, perturb=30, seeds=5, blockers=600, capacity=400),
}


def build_harness(tree):
    """Build the harness binaries against /repo's working tree (cached per tree hash)."""
    with C.locked("harness"):
        d = C.cache_dir("tree-" + tree)
        out = os.path.join(d, "schedrun")
        if os.path.exists(out):
            return d
        shutil.copy(os.path.join(C.REPO, "go.sum"), os.path.join(C.HARNESS, "go.sum"))
        p = C.sh(["go", "build", "-tags", "verif", "-o", out, "./cmd/schedrun"], cwd=C.HARNESS, env=C.GOENV,
                 check=False, timeout=600)
        if p.returncode != 0:
            # A tree on which the hooked scheduler does not build is not something this harness can judge.
            raise C.Infra("building schedrun against /repo failed:\n" + (p.stdout or "")[-3000:])
        return d


def run_set(tree, tier, seed, extra_args=None, tag=""):
    """Run schedrun + driver; returns parsed result dict (cached)."""
    d = build_harness(tree)
    L.build_and_audit()
    drv = L.driver_path()
    t = TIERS[tier]
    name = "sched-%s-%d%s" % (tier, seed, tag)
    with C.locked("schedrun-" + tree + name):
        js = os.path.join(d, name + ".json")
        if os.path.exists(js):
            return json.load(open(js))
        t0 = time.time()
        trace = os.path.join(d, name + ".trace")
        args = [os.path.join(d, "schedrun"), "-seed", str(seed), "-exhaustive", str(t["exhaustive"]),
                "-random", str(t["random"]), "-maxjobs", str(t["maxjobs"]), "-maxn", str(t["maxn"]),
                "-leakfam", str(t["leakfam"]), "-perturb", str(t["perturb"]), "-blockers", str(t["blockers"]),
                "-capacity", str(t["capacity"]), "-par", "12", "-out", trace]
        if extra_args:
            args = [os.path.join(d, "schedrun")] + extra_args + ["-out", trace]
        q = C.sh(args, timeout=3000, check=False)
        if q.returncode != 0:
            crash = impl_crash(q.stdout or "")
            if crash is None:
                raise C.Infra("command failed (%d): %s\n%s" % (q.returncode, " ".join(map(str, args)), (q.stdout or "")[-4000:]))
            # The scheduler under test brought the harness process down (nil dereference, fatal error,
            # unrecovered panic in a frame of go.uber.org/cff): that is an outcome of the implementation, not
            # an infrastructure error.  Every scheduler-level property loses its evidence on this tree; the
            # replay is the stack and the command that reproduces it.
            res = {"scenarios": 0, "summary": {}, "fails": {p_: [("crash", "the scheduler crashed the process: " + crash[0])] for p_ in PROPS},
                   "divs": {}, "div_counts": {}, "kept": {"crash": ["# " + l for l in crash[1].splitlines()[:60]] +
                                                          ["# reproduce: " + " ".join(map(str, args))]},
                   "samples": [], "replayed_ok": 0, "trace_events": 0, "late_enqueue_scenarios": 0,
                   "invalid_at_registration_scenarios": 0, "wall_s": round(time.time() - t0, 1), "crashed": True}
            with open(js, "w") as f:
                json.dump(res, f)
            return res
        drvout = os.path.join(d, name + ".replay")
        with open(trace) as fin, open(drvout, "w") as fout:
            C.sh([drv, "sched"], stdin=fin, stdout=fout, timeout=3000)
        res = parse(trace, drvout)
        res["wall_s"] = round(time.time() - t0, 1)
        res["trace_file"] = trace
        with open(js, "w") as f:
            json.dump(res, f)
        # traces are large; keep only what a replay needs
        return res


def impl_crash(out):
    """If `out` (combined output of a harness binary) shows a Go runtime crash whose innermost non-runtime frame
    is a function of go.uber.org/cff (not of the harness module go.uber.org/cff/verifh), returns
    (one-line description, stack excerpt); otherwise None."""
    m = re.search(r"(panic: [^\n]*|fatal error: [^\n]*|SIGSEGV[^\n]*)", out)
    if not m:
        return None
    i = out.find("goroutine ", m.start())
    if i < 0:
        return None
    block = out[i:i + 6000]
    for line in block.splitlines()[1:]:
        line = line.strip()
        if not line or line.startswith("/") or line.startswith("created by") and False:
            continue
        if line.startswith("runtime.") or line.startswith("panic(") or line.startswith("runtime/"):
            continue
        if line.startswith("go.uber.org/cff/verifh") or line.startswith("main."):
            return None
        if line.startswith("go.uber.org/cff"):
            return (m.group(1).strip()[:200] + " in " + line.split("(")[0], out[max(0, m.start() - 200):i + 3000])
        if line.startswith("created by"):
            return None
    return None


def parse(trace, drvout):
    scen = {}      # idx -> {"header":..., "jobs":[...]}
    fails = {p: [] for p in PROPS}   # property -> [(idx, detail)]
    summary = {}
    cur = None
    nscen = 0
    samples = []
    with open(trace) as f:
        for line in f:
            if line.startswith("scn "):
                cur = line.split()[1]
                nscen += 1
                scen_lines = [line.rstrip("\n")]
                scen[cur] = scen_lines
            elif line.startswith("cap "):
                cur = "cap" + line.split()[1]
                nscen += 1
                scen[cur] = [line.rstrip("\n")]
            elif line.startswith("job ") and cur is not None:
                scen[cur].append(line.rstrip("\n"))
            elif line.startswith("O "):
                parts = line.rstrip("\n").split(" ", 3)
                if parts[2] == "FAIL":
                    fails[parts[1]].append((cur, parts[3] if len(parts) > 3 else ""))
            elif line.startswith("summary "):
                for kv in line.split()[1:]:
                    k, _, v = kv.partition("=")
                    # keys such as N=1=380
                    k2, _, v2 = kv.rpartition("=")
                    summary[k2] = int(v2)
    divs = {}     # kind -> [(idx, detail)]
    replayed = 0
    events = 0
    late_hits = 0
    invalid_at_reg = 0
    with open(drvout) as f:
        for line in f:
            p = line.rstrip("\n").split(" ", 3)
            if p[0] == "R" and p[2] == "ok":
                replayed += 1
                nums = p[3].split()
                late_hits += int(nums[2]) > 0
                invalid_at_reg += int(nums[3]) > 0
            elif p[0] == "R" and p[2] == "div":
                kind, _, detail = p[3].partition(" :: ")
                divs.setdefault(kind, []).append((p[1], detail))
            elif p[0] == "driver-summary":
                for kv in p[1:]:
                    for x in kv.split():
                        k, _, v = x.partition("=")
                        if k == "events":
                            events = int(v)
                        if k == "scenarios":
                            replayed_total = int(v)
    # keep only the scenarios that matter (failures/divergences) + a few samples
    keep = set()
    for p in fails.values():
        keep.update(i for i, _ in p[:20])
    for k in divs.values():
        keep.update(i for i, _ in k[:20])
    ids = list(scen.keys())
    for i in ids[:: max(1, len(ids) // 5)][:5]:
        samples.append(scen[i])
    return {"scenarios": nscen, "summary": summary, "fails": fails,
            "divs": {k: v[:50] for k, v in divs.items()}, "div_counts": {k: len(v) for k, v in divs.items()},
            "kept": {i: scen[i] for i in keep}, "samples": samples, "replayed_ok": replayed,
            "trace_events": events, "late_enqueue_scenarios": late_hits, "invalid_at_registration_scenarios": invalid_at_reg}


def scenario_text(lines):
    return "\n".join(lines) + "\n"


def shrink(tree, pid, lines, tries=30):
    """Drop jobs from the tail / failing outcomes while the oracle of `pid` still fails (each candidate run 20x)."""
    d = build_harness(tree)

    def fails(ls):
        tmp = os.path.join(d, "shrink-%s-%d.scn" % (pid, os.getpid()))
        with open(tmp, "w") as f:
            f.write(scenario_text(ls))
        out = tmp + ".out"
        try:
            p = C.sh([os.path.join(d, "schedrun"), "-replay", tmp, "-repeat", "30", "-out", out], check=False, timeout=300)
        except subprocess.TimeoutExpired:
            p = None  # the candidate hangs the replay: not a smaller reproduction of this oracle failure
        ok = False
        if p is not None and p.returncode == 0:
            with open(out) as f:
                ok = any(l.startswith("O %s FAIL" % pid) for l in f)
        for x in (tmp, out):
            if os.path.exists(x):
                os.remove(x)
        return ok

    if not fails(lines):
        return lines, False
    cur = list(lines)
    n = 0
    changed = True
    while changed and n < tries:
        changed = False
        jobs = [l for l in cur if l.startswith("job ")]
        if len(jobs) <= 1:
            break
        # drop the last job if nothing depends on it (always true for the last)
        cand_jobs = jobs[:-1]
        hdr = re.sub(r"jobs=\d+", "jobs=%d" % len(cand_jobs), cur[0])
        cand = [hdr] + cand_jobs
        n += 1
        if fails(cand):
            cur = cand
            changed = True
    return cur, True


def decide(pid, tier, theorems_status, extra_cov=None):
    """Verdict procedure of DESIGN 2.5 for a scheduler-level property."""
    t0 = time.time()
    tree = C.tree_hash()
    C.prune_cache("tree-" + tree)
    seed = C.seed()
    tcfg = TIERS[tier]
    runs = [run_set(tree, tier, seed + i) for i in range(tcfg["seeds"])]
    findings = C.load_findings()
    viol = []      # (replay path, note)
    known = []
    evaluations = sum(r["scenarios"] for r in runs)
    distinct_nt = sum(r["summary"].get("distinct_nontrivial", 0) for r in runs)
    oracle_fails = [(r, x) for r in runs for x in r["fails"].get(pid, [])]
    sub = SUBSCRIBE.get(pid, [])
    div_hits = {k: sum(r["div_counts"].get(k, 0) for r in runs) for k in sub}
    div_hits = {k: v for k, v in div_hits.items() if v}
    searched = 0
    if oracle_fails:
        r, (idx, detail) = oracle_fails[0]
        lines = r["kept"].get(idx) or []
        small, reproduced = shrink(tree, pid, lines)
        path = C.write_replay(pid, "oracle-%s-%s.scn" % (tree[:8], idx),
                              scenario_text(small) + "# property %s oracle: %s\n# reproduced-on-rerun: %s\n# %d scenario(s) failed in this run\n"
                              % (pid, detail, reproduced, len(oracle_fails)))
        viol.append((path, ""))
    elif div_hits:
        # directed search: more seeds of the scenario families, looking for an oracle failure
        found = None
        for i in range(1, 4):
            # scenario families biased towards the diverging mechanism (leak-prone shapes for the dispatch gate)
            extra = None
            if pid == "C06":
                extra = ["-seed", str(seed + 100 * i), "-exhaustive", "0", "-random", "500", "-leakfam", "6000", "-blockers", "0",
                         "-capacity", "0", "-perturb", "40", "-par", "12"]
            r = run_set(tree, "quick" if tier == "quick" else "thorough", seed + 100 * i, extra_args=extra, tag="-search")
            searched += r["scenarios"]
            if r["fails"].get(pid):
                found = (r, r["fails"][pid][0])
                break
        if found:
            r, (idx, detail) = found
            small, reproduced = shrink(tree, pid, r["kept"].get(idx) or [])
            path = C.write_replay(pid, "oracle-%s-%s.scn" % (tree[:8], idx),
                                  scenario_text(small) + "# property %s oracle: %s\n# found by directed search after correspondence divergence %s\n"
                                  % (pid, detail, sorted(div_hits)))
            viol.append((path, ""))
        else:
            ex = {}
            for r in runs:
                for k in div_hits:
                    for idx, detail in r["divs"].get(k, [])[:2]:
                        ex.setdefault(k, []).append({"scenario": r["kept"].get(idx), "detail": detail})
            path = C.write_replay(pid, "correspondence-%s.json" % tree[:8], {
                "property": pid,
                "no_longer_checks": "trace correspondence between scheduler/scheduler.go and CffVerif.Sched (kinds: %s); "
                                    "theorems %s are about the model and no longer transfer to the code"
                                    % (", ".join(sorted(div_hits)), ", ".join(theorems_status.get("names", []))),
                "divergences": ex, "scenarios_searched_for_a_failing_input": searched + evaluations})
            viol.append((path, "no-failing-input-found"))
    # evidence
    thm = theorems_status
    cov = {
        "obligations": thm["obligations"], "discharged": thm["discharged"],
        "checker_cmd": "cd /verif/lean && lake build && lake env lean Audit.lean",
        "trusted_base": thm["trusted_base"],
        "theorems": thm["names"],
        "evaluations": evaluations, "distinct_nontrivial": distinct_nt,
        "rule": "scenario = (DAG with duplicate deps, outcomes per job in {ok,fail,goexit,cancel-ok,cancel-fail}, N, mode, emitter, "
                "late-enqueue pacing, external cancel point, perturbation seed); exhaustive over all DAGs<=%d jobs x {ok,fail}^n x N in 1..3 x 2 modes x 2 pacings, "
                "then random and leak-prone families; distinct by that tuple; non-trivial = fan-in>1 or a non-ok outcome or late enqueue or external cancel"
                % tcfg["exhaustive"],
        "samples": runs[0]["samples"][:3],
        "traces_validated_against_impl": sum(r["replayed_ok"] for r in runs),
        "trace_events_replayed": sum(r["trace_events"] for r in runs),
        "subscribed_divergence_kinds": sub, "divergences_seen": div_hits,
        "oracle_failures": len(oracle_fails),
        "input_distribution": runs[0]["summary"],
        "late_enqueue_scenarios_hitting_done_dep": sum(r["late_enqueue_scenarios"] for r in runs),
        "scenarios_with_job_invalid_at_registration": sum(r["invalid_at_registration_scenarios"] for r in runs),
        "directed_search_scenarios": searched,
    }
    if extra_cov:
        cov.update(extra_cov)
    return viol, known, cov, time.time() - t0
