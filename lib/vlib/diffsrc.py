"""Differential sources: textrun (text-level functions) and progrun (generated code), both replayed
through the Lean driver.  Results are cached per (tree hash, seed, tier)."""
import json, os, re, shutil, time
from . import common as C
from . import lean as L

TEXT_TIERS = {"quick": "quick", "thorough": "thorough"}
PROG_TIERS = {"quick": dict(programs=120, seeds=1), "thorough": dict(programs=400, seeds=6)}


def _build(tree, name, pkg, tags):
    with C.locked("harness"):
        d = C.cache_dir("tree-" + tree)
        out = os.path.join(d, name)
        if os.path.exists(out):
            return out
        shutil.copy(os.path.join(C.REPO, "go.sum"), os.path.join(C.HARNESS, "go.sum"))
        cmd = ["go", "build"] + (["-tags", tags] if tags else []) + ["-o", out, pkg]
        p = C.sh(cmd, cwd=C.HARNESS, env=C.GOENV, check=False, timeout=900)
        if p.returncode != 0:
            raise C.Infra("building %s against /repo failed:\n%s" % (pkg, (p.stdout or "")[-3000:]))
        return out


def run_text(tree, tier, seed):
    exe = _build(tree, "textrun", "./cmd/textrun", "verif")
    L.build_and_audit()
    drv = L.driver_path()
    d = C.cache_dir("tree-" + tree)
    name = "text-%s-%d" % (tier, seed)
    with C.locked("textrun-" + tree + name):
        js = os.path.join(d, name + ".json")
        if os.path.exists(js):
            return json.load(open(js))
        t0 = time.time()
        out = os.path.join(d, name + ".out")
        C.sh([exe, "-seed", str(seed), "-tier", TEXT_TIERS[tier], "-repo", C.REPO, "-out", out], env=C.GOENV, timeout=3000)
        rep = os.path.join(d, name + ".replay")
        with open(out) as fin, open(rep, "w") as fout:
            C.sh([drv, "text"], stdin=fin, stdout=fout, timeout=1200)
        res = parse_text(out, rep)
        res["wall_s"] = round(time.time() - t0, 1)
        res["out_file"] = out
        json.dump(res, open(js, "w"))
        return res


def parse_text(out, rep):
    counts = {}
    samples = {}
    notes = []
    complete = False
    with open(out) as f:
        for line in f:
            k = line.split(" ", 1)[0]
            counts[k] = counts.get(k, 0) + 1
            if k in ("BT", "AL", "ES", "GF", "FS", "DT", "SM") and len(samples.setdefault(k, [])) < 2:
                samples[k].append(line.rstrip("\n")[:400])
            if k == "N":
                notes.append(line.rstrip("\n")[:300])
            if k == "END":
                complete = True
    divs = {}
    summary = {}
    with open(rep) as f:
        for line in f:
            line = line.rstrip("\n")
            if line.startswith("R "):
                parts = line.split(" ", 4)       # R <type> div <kind> :: detail
                kind = parts[3]
                divs.setdefault(kind, []).append(line[:600])
            elif line.startswith("driver-summary"):
                for kv in line.split()[1:]:
                    k, _, v = kv.partition("=")
                    summary[k] = int(v)
    if not complete or summary.get("complete") != 1:
        raise C.Infra("textrun output incomplete")
    return {"counts": counts, "samples": samples, "notes": notes[:10], "divs": {k: v[:30] for k, v in divs.items()},
            "div_counts": {k: len(v) for k, v in divs.items()}, "checked": summary.get("checked", 0)}


def run_prog(tree, tier, seed, extra=None, tag=""):
    exe = _build(tree, "progrun", "./cmd/progrun", "")
    L.build_and_audit()
    drv = L.driver_path()
    d = C.cache_dir("tree-" + tree)
    name = "prog-%s-%d%s" % (tier, seed, tag)
    with C.locked("progrun-" + tree + name):
        js = os.path.join(d, name + ".json")
        if os.path.exists(js):
            return json.load(open(js))
        t0 = time.time()
        out = os.path.join(d, name + ".out")
        args = [exe, "-seed", str(seed), "-programs", str(PROG_TIERS[tier]["programs"]), "-repo", C.REPO, "-out", out]
        if extra:
            args = [exe] + extra + ["-repo", C.REPO, "-out", out]
        p = C.sh(args, env=C.GOENV, timeout=3400, check=False)
        if p.returncode not in (0, 1) or not os.path.exists(out):
            raise C.Infra("progrun failed (%d):\n%s" % (p.returncode, (p.stdout or "")[-3000:]))
        rep = os.path.join(d, name + ".replay")
        with open(out) as fin, open(rep, "w") as fout:
            C.sh([drv, "prog"], stdin=fin, stdout=fout, timeout=1200)
        res = parse_prog(out, rep)
        res["wall_s"] = round(time.time() - t0, 1)
        res["out_file"] = out
        json.dump(res, open(js, "w"))
        return res


def parse_prog(out, rep):
    """Keeps, per diverging program, its spec lines and the diverging scenario lines (for replay)."""
    divs = []      # dicts: pid sid stream kind detail known
    summary = {}
    with open(rep) as f:
        for line in f:
            line = line.rstrip("\n")
            if line.startswith("DIV ") or line.startswith("KDIV "):
                head, _, detail = line.partition(" :: ")
                p = head.split(" ")
                divs.append({"known": p[0] == "KDIV", "pid": p[1], "sid": p[2], "stream": p[3], "kind": p[4], "detail": detail[:400]})
            elif line.startswith("driver-summary"):
                for kv in line.split()[1:]:
                    k, _, v = kv.partition("=")
                    summary[k] = int(v)
    need = {d["pid"] for d in divs}
    specs = {}
    scen = {}
    kinds = {}
    streams = {}
    gosummary = ""
    samples = []
    with open(out) as f:
        for line in f:
            if line.startswith("prog "):
                t = line.split()
                kinds[t[1]] = t[2]
                if t[1] in need or len(samples) < 3:
                    specs[t[1]] = [line.rstrip("\n")]
                    if t[1] not in need:
                        samples.append(t[1])
            elif line.startswith("P "):
                t = line.split(" ", 3)
                if t[1] in specs:
                    specs[t[1]].append(line.rstrip("\n"))
                if t[2] == "meta":
                    m = re.search(r"stream=(\S+)", line)
                    if m:
                        streams[m.group(1)] = streams.get(m.group(1), 0) + 1
            elif line.startswith("S "):
                t = line.split(" ", 3)
                if t[1] in need:
                    scen.setdefault(t[1], {})[t[2]] = line.rstrip("\n")
                elif t[1] in samples and t[2] == "0":
                    specs[t[1]].append(line.rstrip("\n"))
            elif line.startswith("summary "):
                gosummary = line.strip()[:3000]
    for d in divs:
        d["kindprog"] = kinds.get(d["pid"], "?")
    return {"divs": divs, "specs": {k: v for k, v in specs.items() if k in need}, "scen": scen,
            "summary": summary, "streams": streams, "gosummary": gosummary,
            "samples": [specs[s] for s in samples if s in specs]}


def replay_text(res_prog, pid, sid):
    lines = list(res_prog["specs"].get(pid, []))
    s = res_prog["scen"].get(pid, {})
    if sid in s:
        lines.append(s[sid])
    elif s:
        lines.extend(list(s.values())[:3])
    return "\n".join(lines) + "\n"
