import json, os, sys, time, traceback
from . import common as C
from . import lean as L
from . import sched as S
from . import diffsrc as D

ASSUME_S = [
    "Go channel, select, goroutine and defer semantics are as encoded in Sched.step (trusted, not verified)",
    "job bodies are atomic in the model; every job has its own context and Wait has one (cancellation of a context is one atomic step); user errors are atomic values",
    "the correspondence between scheduler/scheduler.go and the model is differential: it covers the executions explored, the theorems cover all executions of the model",
    "harness/cmd/schedrun (oracles, scenario generator), the verif-tagged hooks, lib/vlib (verdict logic) and Driver.lean's parser are trusted",
]


def theorem_status(pid):
    tbl = L.theorems_table().get(pid, {})
    names = tbl.get("theorems", [])
    audit = L.build_and_audit()
    ok = [n for n in names if audit["theorems"].get(n, {}).get("ok")]
    axioms = sorted({a for n in names for a in audit["theorems"].get(n, {}).get("axioms", [])})
    return {"names": names, "obligations": len(names), "discharged": len(ok),
            "trusted_base": ["Lean 4.33.0 kernel", "axioms used by these theorems: " + (", ".join(axioms) or "none")] + tbl.get("modelled_not_verified", []),
            "lean_wall_s": audit.get("_wall_s")}


def apply_tie(pid, viol, cov):
    """Tie mechanism A: per-site facts regenerated from /repo and re-checked by Lean `decide`.
    A failed obligation means the property is no longer shown; the differential run of this check was
    the search for a failing input; if it found none the violation is reported as such."""
    mine, bad, st = L.tie_for(pid)
    if not mine:
        return
    cov["tie_obligations"] = mine
    cov["tie_obligations_failed"] = bad
    cov["obligations"] = cov.get("obligations", 0) + len(mine)
    cov["discharged"] = cov.get("discharged", 0) + len(mine) - len(bad)
    cov["tie_extractor"] = st.get("extract_summary", "")[-400:]
    cov.setdefault("trusted_base", []).append(
        "harness/cmd/extract (fact extractor: go/ast, go/types, text/template/parse over %d files of /repo) and the reviewed tables in lean/CffVerif/Tie/Facts.lean" % st.get("files_read", 0))
    if bad and not viol:
        txt = ("property %s is no longer shown to hold: the tie obligation(s) %s of lean/CffVerif/Tie/Facts.lean no longer check\n"
               "against the facts regenerated from /repo (lean/CffVerif/Extracted/Facts.lean).\n"
               "The differential/trace search of this run found no failing input.\n\n%s\n" %
               (pid, ", ".join("Tie." + b for b in bad), st.get("build_output", "")[-2500:]))
        viol.append((C.write_replay(pid, "tie-%s.txt" % C.tree_hash()[:8], txt), "no-failing-input-found"))


def finish(pid, tier, level, viol, known, cov, assumptions, wall):
    apply_tie(pid, viol, cov)
    if tier == "thorough":
        lc = L.leanchecker_status()
        cov["leanchecker"] = {"ok": lc["ok"], "modules": lc["modules"], "wall_s": lc["wall_s"]}
    findings = C.load_findings()
    for k in known:
        print("KNOWN-FINDING: property=%s %s" % (pid, k), flush=True)
    C.write_evidence(pid, tier, level, cov, assumptions, wall, len(viol))
    if viol:
        for path, suffix in viol:
            print(("VIOLATION property=%s replay=%s %s" % (pid, path, suffix)).rstrip(), flush=True)
        return 1
    print("HOLD property=%s tier=%s (%.1fs)" % (pid, tier, wall), flush=True)
    return 0


def check_sched(pid, tier):
    ts = theorem_status(pid)
    viol, known, cov, wall = S.decide(pid, tier, ts)
    return finish(pid, tier, "proof", viol, known, cov, ASSUME_S, wall)


# ---- properties decided (wholly or partly) by the generated-code / text differentials -------------------

ASSUME_D = [
    "go/types, go/parser, go/format, astutil, build/constraint, text/template, multierr are library behaviour outside the models; the differential runs the real ones",
    "the differential covers the programs/cases generated in this run; the theorems cover every input of the model",
    "harness/cmd/progrun, harness/cmd/textrun (generators, observation of the real tool), Driver.lean's parsers and lib/vlib are trusted",
]

# property -> prog divergence kinds: (kind prefix, program kind or None)
PROG_KINDS = {
    "C02": [("static.tagsrun", None), ("evalorder", "flow"), ("args", "flow"), ("results", "flow"), ("calls", "flow"), ("order", "flow"), ("agree", None), ("topo", None), ("deps", None), ("cancel", "flow")],
    "C01": [("deps", None), ("order", None)],
    "C03": [("maxin", None), ("gids", None), ("oncaller", None)],
    "C04": [("crash", None), ("ret", None)],
    "C05": [("crash", None)],
    "C06": [("quiesce", None)],
    "C07": [("ret", None), ("results", "flow"), ("calls", "flow"), ("deps", None), ("cancel", "flow")],
    "C08": [("ret", "par"), ("calls", "par"), ("cancel", "par")],
    "C09": [("ctxseen", None), ("cancel", None)],
    "C10": [("calls", "par"), ("args", "par"), ("ret", "par"), ("order", "par"), ("cancel", "par")],
    "C11": [("calls", "flow"), ("args", "flow"), ("results", "flow"), ("deps", None), ("order", "flow"), ("cancel", "flow")],
    "C13": [("static.tagsrun", None), ("static.parses", None), ("static.typechecks", None), ("static.directives", None), ("toolpanic", None)],
    "C14": [("accept", None), ("diag", None)],
    "C12": [("evalgoroutine", None), ("oncaller", None), ("static.shared", None)],
    "C15": [("evalorder", None), ("evalgoroutine", None), ("static.hygiene", None)],
    "C16": [("static.astdiff", None)],
    "C17": [("static.deterministic", None), ("static.tagsrun", None)],
    "C18": [("events", None)],
    "C20": [("static.sourcemap", None), ("modifier", None)],
}
TEXT_KINDS = {
    "C13": ["al.", "x.AL", "x.GF"],
    "C16": ["bt.", "gf.", "fs.", "dt.others", "x.BT", "x.GF"],
    "C17": ["dt.nondeterministic", "dt.alone", "dt.sequence", "dt.exit", "x.DT"],
    "C18": ["es.", "x.ES"],
    "C20": ["sm.", "x.SM", "mn.", "x.MN"],
}


def prog_part(pid, tier):
    """Returns (violations, known lines, coverage dict) from the progrun differential."""
    tree = C.tree_hash()
    seed = C.seed()
    runs = [D.run_prog(tree, tier, seed + i) for i in range(D.PROG_TIERS[tier]["seeds"])]
    kinds = PROG_KINDS.get(pid, [])
    findings = C.load_findings()
    viol, known = [], []

    def mine(d):
        return any(d["kind"].startswith(k) and (pk is None or d["kindprog"] == pk) for k, pk in kinds)
    seen_known = set()
    for r in runs:
        for d in r["divs"]:
            if not mine(d):
                continue
            if d["known"]:
                # a known: stream is the dedicated regression program of one recorded finding; whatever
                # diverges inside it is that finding.  The line is printed for the properties the finding lists.
                ent = [e for e in findings.get("open", []) if e.get("stream") == d["stream"]]
                if ent:
                    if pid in ent[0].get("properties", []) and ent[0]["id"] not in seen_known:
                        seen_known.add(ent[0]["id"])
                        known.append("%s: %s" % (ent[0]["id"], ent[0]["what"]))
                    continue
            if len(viol) < 3:
                path = C.write_replay(pid, "prog-%s-%s-%s.txt" % (tree[:8], d["pid"], d["sid"]),
                                      D.replay_text(r, d["pid"], d["sid"]) +
                                      "# property %s: %s: %s\n# stream %s; re-run: harness progrun -replay <this file>\n"
                                      % (pid, d["kind"], d["detail"], d["stream"]))
                viol.append((path, ""))
    cov = {
        "programs": sum(r["summary"].get("programs", 0) for r in runs),
        "prog_scenarios": sum(r["summary"].get("scenarios", 0) for r in runs),
        "disagreements_checked": sum(r["summary"].get("checked", 0) for r in runs),
        "prog_divergence_kinds_subscribed": [k for k, _ in kinds],
        "prog_streams": runs[0]["streams"],
        "prog_generator_summary": runs[0]["gosummary"][:1500],
        "prog_samples": runs[0]["samples"][:2],
    }
    return viol, known, cov


def text_part(pid, tier):
    tree = C.tree_hash()
    r = D.run_text(tree, tier, C.seed())
    pref = TEXT_KINDS.get(pid, [])
    viol = []
    hits = {k: v for k, v in r["divs"].items() if any(k.startswith(x) for x in pref)}
    if hits:
        lines = [l for v in hits.values() for l in v][:20]
        path = C.write_replay(pid, "text-%s.txt" % tree[:8],
                              "\n".join(lines) + "\n# property %s; cases are lines of `harness textrun -seed %d -tier %s`\n" % (pid, C.seed(), tier))
        viol.append((path, ""))
    cov = {"text_cases_checked": r["checked"], "text_case_counts": r["counts"], "text_samples": r["samples"],
           "text_divergence_kinds_subscribed": pref, "text_notes": r["notes"][:5]}
    return viol, [], cov


SCHED_ORACLE_TOO = {"C10"}


def check_diff(pid, tier):
    t0 = time.time()
    C.prune_cache("tree-" + C.tree_hash())
    ts = theorem_status(pid)
    viol, known, cov = [], [], {}
    if pid in PROG_KINDS:
        v, k, c = prog_part(pid, tier)
        viol += v; known += k; cov.update(c)
    if pid in TEXT_KINDS:
        v, k, c = text_part(pid, tier)
        viol += v; known += k; cov.update(c)
    if pid in SCHED_ORACLE_TOO:
        # the scheduler-level face of the property (for C10: an End hook is a job that depends on the
        # element jobs; "never after a failed element" is the scheduler's "no job downstream of a failure")
        v, k, c, _ = S.decide(pid, tier, ts)
        viol += v; known += k
        cov.update({"sched_" + kk: vv for kk, vv in c.items() if kk in ("evaluations", "oracle_failures", "traces_validated_against_impl")})
    ev = cov.get("disagreements_checked", 0) + cov.get("text_cases_checked", 0)
    cov.update({"obligations": ts["obligations"], "discharged": ts["discharged"],
                "checker_cmd": "cd /verif/lean && lake build && lake env lean Audit.lean",
                "trusted_base": ts["trusted_base"], "theorems": ts["names"],
                "evaluations": ev, "distinct_nontrivial": max(2, cov.get("programs", 0) + cov.get("text_cases_checked", 0)) if ev else 0,
                "rule": "programs are drawn from abstract specs (well-formed, single-defect mutations, known-defect streams) with all/ sampled outcome assignments; text cases are enumerated exhaustively up to the tier's size; distinct = distinct spec or case line",
                "samples": (cov.get("prog_samples") or []) + [cov.get("text_samples", {})]})
    return finish(pid, tier, "proof", viol, known, cov, ASSUME_D, time.time() - t0)


def check_sched_plus(pid, tier):
    """Scheduler-level property that also has a generated-code side."""
    ts = theorem_status(pid)
    viol, known, cov, wall = S.decide(pid, tier, ts)
    t0 = time.time()
    if pid in PROG_KINDS:
        v, k, c = prog_part(pid, tier)
        viol += v; known += k; cov.update(c)
    return finish(pid, tier, "proof", viol, known, cov, ASSUME_S + ASSUME_D[:1], wall + time.time() - t0)


RACE_TIERS = {"quick": dict(exhaustive=3, random=700, leakfam=150, programs=40),
              "thorough": dict(exhaustive=4, random=6000, leakfam=1000, programs=200)}


def check_race(pid, tier):
    """C12: both harnesses rebuilt with the race detector; any report is a violation."""
    import shutil, subprocess
    t0 = time.time()
    tree = C.tree_hash()
    C.prune_cache("tree-" + tree)
    ts = theorem_status(pid)
    d = C.cache_dir("tree-" + tree)
    rt = RACE_TIERS[tier]
    seed = C.seed()
    js = os.path.join(d, "race-%s-%d.json" % (tier, seed))
    with C.locked("race-" + tree):
        if os.path.exists(js):
            res = json.load(open(js))
        else:
            shutil.copy(os.path.join(C.REPO, "go.sum"), os.path.join(C.HARNESS, "go.sum"))
            exe = os.path.join(d, "schedrun-race")
            p = C.sh(["go", "build", "-race", "-tags", "verif", "-o", exe, "./cmd/schedrun"], cwd=C.HARNESS, env=C.GOENV, check=False, timeout=900)
            if p.returncode != 0:
                raise C.Infra("race build of schedrun failed:\n" + (p.stdout or "")[-2000:])
            out = os.path.join(d, "race-sched.out")
            env = dict(C.GOENV, GORACE="halt_on_error=0 exitcode=0")
            q = subprocess.run([exe, "-seed", str(seed), "-exhaustive", str(rt["exhaustive"]), "-random", str(rt["random"]),
                                "-maxjobs", "20", "-maxn", "8", "-leakfam", str(rt["leakfam"]), "-perturb", "30", "-par", "8", "-out", out],
                               env=env, stdout=subprocess.PIPE, stderr=subprocess.PIPE, text=True, timeout=3000)
            sched_reports = q.stderr.count("WARNING: DATA RACE")
            first = ""
            if sched_reports:
                i = q.stderr.index("WARNING: DATA RACE")
                first = q.stderr[i:i + 3000]
            nscen = 0
            with open(out) as f:
                for line in f:
                    if line.startswith("scn "):
                        nscen += 1
            os.remove(out)
            # generated code under the race detector
            pexe = D._build(tree, "progrun", "./cmd/progrun", "")
            pout = os.path.join(d, "race-prog.out")
            C.sh([pexe, "-seed", str(seed), "-programs", str(rt["programs"]), "-race", "-no-known", "-repo", C.REPO, "-out", pout],
                 env=C.GOENV, check=False, timeout=3400)
            prog_races, pscen, sample = 0, 0, ""
            with open(pout) as f:
                for line in f:
                    if line.startswith("S "):
                        pscen += 1
                    if " crash " in line and "DATA_RACE" in line:
                        prog_races += 1
                        sample = sample or line.strip()[:1500]
            os.remove(pout)
            res = {"sched_reports": sched_reports, "sched_first": first, "sched_scenarios": nscen, "sched_exit": q.returncode,
                   "prog_races": prog_races, "prog_scenarios": pscen, "prog_sample": sample}
            json.dump(res, open(js, "w"))
    viol = []
    if res["sched_reports"]:
        viol.append((C.write_replay(pid, "race-sched-%s.txt" % tree[:8], res["sched_first"] + "\n# schedrun -race seed %d\n" % seed), ""))
    if res["prog_races"]:
        viol.append((C.write_replay(pid, "race-prog-%s.txt" % tree[:8], res["prog_sample"] + "\n# progrun -race seed %d\n" % seed), ""))
    cov = {"obligations": ts["obligations"], "discharged": ts["discharged"],
           "checker_cmd": "cd /verif/lean && lake build && lake env lean Audit.lean",
           "trusted_base": ts["trusted_base"] + ["the Go race detector's happens-before analysis (the search), the Go memory model (trusted)"],
           "theorems": ts["names"],
           "evaluations": res["sched_scenarios"] + res["prog_scenarios"],
           "distinct_nontrivial": max(2, res["sched_scenarios"] + res["prog_scenarios"]) if res["sched_scenarios"] else 0,
           "rule": "every scenario of the scheduler harness (incl. early return on failure/cancel while jobs still run) and every scenario of generated programs executed in binaries built with -race; a report is a violation",
           "samples": [{"scheduler_scenarios_under_race": res["sched_scenarios"], "program_scenarios_under_race": res["prog_scenarios"]}],
           "race_reports": res["sched_reports"] + res["prog_races"]}
    # ownership observations of the program differential (which goroutine evaluated / ran what)
    v2, k2, c2 = prog_part(pid, tier)
    viol += v2
    cov.update({k: v for k, v in c2.items() if k.startswith("prog")})
    return finish(pid, tier, "proof", viol, k2, cov, ASSUME_S + ["partial: the theorems establish the ownership discipline of the model; 'therefore no data race' rests on the Go memory model (trusted) and on the race detector as the search"], time.time() - t0)


DISPATCH = {p: check_sched_plus for p in S.PROPS}
DISPATCH["C12"] = check_race
for _p in ("C02", "C04", "C10", "C11", "C13", "C14", "C15", "C16", "C17", "C18", "C20"):
    DISPATCH[_p] = check_diff


def setup():
    t0 = time.time()
    L.build_and_audit()
    S.build_harness(C.tree_hash())
    D._build(C.tree_hash(), "textrun", "./cmd/textrun", "verif")
    D._build(C.tree_hash(), "progrun", "./cmd/progrun", "")
    print("setup ok (%.0fs)" % (time.time() - t0))
    return 0


def replay(pid, path):
    """Re-run a recorded failing scenario."""
    tree = C.tree_hash()
    if path.endswith(".scn") and open(path).read().startswith("cap "):
        import re
        d = S.build_harness(tree)
        txt = open(path).read()
        m1, m2 = re.search(r"capseed=(\d+)", txt), re.search(r"capcount=(\d+)", txt)
        out = os.path.join(d, "replay.out")
        C.sh([os.path.join(d, "schedrun"), "-seed", m1.group(1) if m1 else "1", "-exhaustive", "0", "-random", "0", "-leakfam", "0",
              "-blockers", "0", "-capacity", m2.group(1) if m2 else "60", "-out", out])
        bad = [l.strip() for l in open(out) if l.startswith("O %s FAIL" % pid)]
        print("re-ran the capacity cases: %d failing for %s" % (len(bad), pid))
        if bad:
            print(bad[0][:400])
            print("VIOLATION property=%s replay=%s" % (pid, path))
            return 1
        return 0
    if path.endswith(".scn"):
        d = S.build_harness(tree)
        out = os.path.join(d, "replay.out")
        C.sh([os.path.join(d, "schedrun"), "-replay", path, "-repeat", "200", "-out", out])
        n = 0
        first = None
        with open(out) as f:
            for l in f:
                if l.startswith("O %s FAIL" % pid):
                    n += 1
                    first = first or l.strip()
        print("replayed 200 times: %d failing for %s" % (n, pid))
        if first:
            print(first)
            print("VIOLATION property=%s replay=%s" % (pid, path))
            return 1
        return 0
    print(open(path).read())
    return 0


def main(argv):
    if not argv:
        print(__doc__)
        return 2
    try:
        if argv[0] == "setup":
            return setup()
        pid = argv[0]
        tier = os.environ.get("VERIF_TIER", "quick")
        rp = None
        i = 1
        while i < len(argv):
            if argv[i] == "--tier":
                tier = argv[i + 1]; i += 2
            elif argv[i] == "--replay":
                rp = argv[i + 1]; i += 2
            else:
                i += 1
        if tier not in ("quick", "thorough"):
            tier = "quick"
        if rp:
            return replay(pid, rp)
        if pid not in DISPATCH:
            print("unknown property", pid, file=sys.stderr)
            return 2
        return DISPATCH[pid](pid, tier)
    except C.Infra as e:
        print("INFRASTRUCTURE-ERROR: %s" % e, file=sys.stderr)
        return 2
    except Exception:
        traceback.print_exc()
        print("INFRASTRUCTURE-ERROR: unexpected exception", file=sys.stderr)
        return 2
