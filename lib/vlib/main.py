import json, os, sys, time, traceback
from . import common as C
from . import lean as L
from . import sched as S

ASSUME_S = [
    "Go channel, select, goroutine and defer semantics are as encoded in Sched.step (trusted, not verified)",
    "job bodies are atomic in the model; one context per scheduler; user errors are atomic values",
    "the correspondence between scheduler/scheduler.go and the model is differential: it covers the executions explored, the theorems cover all executions of the model",
    "harness/cmd/schedrun (oracles, scenario generator), the verif-tagged hooks, lib/vlib (verdict logic) and Driver.lean's parser are trusted",
]


def theorem_status(pid):
    tbl = L.theorems_table().get(pid, {})
    names = tbl.get("theorems", [])
    audit = L.build_and_audit()
    ok = [n for n in names if audit["theorems"].get(n, {}).get("ok")]
    axioms = sorted({a for n in names for a in audit["theorems"].get(n, {}).get("axioms", [])})
    return {"names": names, "obligations": len(names), "discharged": len(ok),
            "trusted_base": ["Lean 4.33.0 kernel", "axioms used by these theorems: " + (", ".join(axioms) or "none")] + tbl.get("modelled_not_verified", []),
            "lean_wall_s": audit.get("_wall_s")}


def finish(pid, tier, level, viol, known, cov, assumptions, wall):
    findings = C.load_findings()
    for k in known:
        print("KNOWN-FINDING: property=%s %s" % (pid, k), flush=True)
    C.write_evidence(pid, tier, level, cov, assumptions, wall, len(viol))
    if viol:
        for path, suffix in viol:
            print(("VIOLATION property=%s replay=%s %s" % (pid, path, suffix)).rstrip(), flush=True)
        return 1
    print("HOLD property=%s tier=%s (%.1fs)" % (pid, tier, wall), flush=True)
    return 0


def check_sched(pid, tier):
    ts = theorem_status(pid)
    viol, known, cov, wall = S.decide(pid, tier, ts)
    return finish(pid, tier, "proof", viol, known, cov, ASSUME_S, wall)


DISPATCH = {p: check_sched for p in S.PROPS}


def setup():
    t0 = time.time()
    L.build_and_audit()
    S.build_harness(C.tree_hash())
    print("setup ok (%.0fs)" % (time.time() - t0))
    return 0


def replay(pid, path):
    """Re-run a recorded failing scenario."""
    tree = C.tree_hash()
    if path.endswith(".scn"):
        d = S.build_harness(tree)
        out = os.path.join(d, "replay.out")
        C.sh([os.path.join(d, "schedrun"), "-replay", path, "-repeat", "200", "-out", out])
        n = 0
        first = None
        with open(out) as f:
            for l in f:
                if l.startswith("O %s FAIL" % pid):
                    n += 1
                    first = first or l.strip()
        print("replayed 200 times: %d failing for %s" % (n, pid))
        if first:
            print(first)
            print("VIOLATION property=%s replay=%s" % (pid, path))
            return 1
        return 0
    print(open(path).read())
    return 0


def main(argv):
    if not argv:
        print(__doc__)
        return 2
    try:
        if argv[0] == "setup":
            return setup()
        pid = argv[0]
        tier = os.environ.get("VERIF_TIER", "quick")
        rp = None
        i = 1
        while i < len(argv):
            if argv[i] == "--tier":
                tier = argv[i + 1]; i += 2
            elif argv[i] == "--replay":
                rp = argv[i + 1]; i += 2
            else:
                i += 1
        if tier not in ("quick", "thorough"):
            tier = "quick"
        if rp:
            return replay(pid, rp)
        if pid not in DISPATCH:
            print("unknown property", pid, file=sys.stderr)
            return 2
        return DISPATCH[pid](pid, tier)
    except C.Infra as e:
        print("INFRASTRUCTURE-ERROR: %s" % e, file=sys.stderr)
        return 2
    except Exception:
        traceback.print_exc()
        print("INFRASTRUCTURE-ERROR: unexpected exception", file=sys.stderr)
        return 2
