"""Shared plumbing: paths, tree hash, cache, subprocess, evidence, known findings."""
import hashlib, json, os, subprocess, sys, time, fcntl, contextlib

VERIF = os.path.dirname(os.path.dirname(os.path.dirname(os.path.abspath(__file__))))
REPO = os.environ.get("VERIF_REPO", "/repo")
LEAN = os.path.join(VERIF, "lean")
HARNESS = os.path.join(VERIF, "harness")
CACHE = os.path.join(VERIF, ".cache")
# VERIF_OUT redirects evidence and replays (sweeps over patched copies of /repo must not overwrite the
# evidence of the unchanged tree)
_OUT = os.environ.get("VERIF_OUT", VERIF)
EVIDENCE = os.path.join(_OUT, "evidence")
REPLAYS = os.path.join(_OUT, "replays")

GOENV = dict(os.environ, GOFLAGS="-mod=mod", GOPROXY="off", GOSUMDB="off", GOTOOLCHAIN="local",
             CGO_ENABLED=os.environ.get("CGO_ENABLED", "1"))


if os.path.realpath(REPO) != "/repo":
    # VERIF_REPO (background sweeps on a snapshot of /repo): the harness module must resolve
    # go.uber.org/cff to that tree, not to /repo, so a private go.mod is used through -modfile.
    import shutil as _sh
    _alt = os.path.join(HARNESS, "go.alt.%s.mod" % hashlib.sha256(os.path.realpath(REPO).encode()).hexdigest()[:10])
    with open(os.path.join(HARNESS, "go.mod")) as _f:
        _txt = _f.read().replace("=> /repo", "=> " + os.path.realpath(REPO))
    with open(_alt, "w") as _f:
        _f.write(_txt)
    _sh.copy(os.path.join(REPO, "go.sum"), _alt[:-4] + ".sum")
    GOENV["GOFLAGS"] = "-mod=mod -modfile=" + _alt


class Infra(Exception):
    """Infrastructure failure: never a verdict."""


def sh(cmd, cwd=None, env=None, timeout=None, check=True, stdin=None, stdout=subprocess.PIPE):
    p = subprocess.run(cmd, cwd=cwd, env=env, timeout=timeout, stdin=stdin, stdout=stdout,
                       stderr=subprocess.STDOUT, text=True)
    if check and p.returncode != 0:
        raise Infra("command failed (%d): %s\n%s" % (p.returncode, " ".join(map(str, cmd)), (p.stdout or "")[-4000:]))
    return p


_machinery = None


def machinery_hash():
    """Hash of the checking machinery itself (harness, verdict library, Lean sources): cached results
    of one /repo tree must not survive a change of the machinery."""
    global _machinery
    if _machinery is None:
        _machinery = tree_hash(VERIF, ["harness", "lib", "lean", "theorems.json", "known_findings.json"])
    return _machinery


def tree_hash(root=None, subdirs=None):
    """sha256 over (relative path, content) of every file under root, minus .git.
    For /repo (root=None) the hash of the machinery is folded in."""
    if root is None:
        return hashlib.sha256((tree_hash(REPO) + machinery_hash()).encode()).hexdigest()[:20]
    h = hashlib.sha256()
    tops = subdirs or [""]
    for top in tops:
        base = os.path.join(root, top)
        if os.path.isfile(base):
            h.update(top.encode()); h.update(open(base, "rb").read()); continue
        for d, dirs, files in os.walk(base):
            dirs[:] = sorted(x for x in dirs if x not in (".git", ".lake", "bin", "__pycache__", "Extracted"))
            for f in sorted(files):
                p = os.path.join(d, f)
                if root == VERIF and (f == "go.sum" or f.startswith("go.alt.")):
                    continue  # copied from /repo before every harness build
                if os.path.islink(p) or not os.path.isfile(p):
                    continue
                h.update(os.path.relpath(p, root).encode()); h.update(b"\0")
                with open(p, "rb") as fh:
                    h.update(fh.read())
                h.update(b"\0")
    return h.hexdigest()[:20]


@contextlib.contextmanager
def locked(name):
    os.makedirs(CACHE, exist_ok=True)
    f = open(os.path.join(CACHE, name + ".lock"), "w")
    fcntl.flock(f, fcntl.LOCK_EX)
    try:
        yield
    finally:
        fcntl.flock(f, fcntl.LOCK_UN)
        f.close()


def cache_dir(*parts):
    d = os.path.join(CACHE, *parts)
    os.makedirs(d, exist_ok=True)
    return d


def prune_cache(keep_prefix):
    """Remove cache entries of other trees (disk is limited)."""
    import shutil
    if not os.path.isdir(CACHE) or os.environ.get("VERIF_OUT"):
        return  # isolated sweeps run several trees side by side; tools/sweep_patches.sh cleans up itself
    for name in os.listdir(CACHE):
        p = os.path.join(CACHE, name)
        if os.path.isdir(p) and name.startswith("tree-") and not name.startswith(keep_prefix):
            shutil.rmtree(p, ignore_errors=True)


def seed():
    try:
        return int(os.environ.get("VERIF_SEED", "1"))
    except ValueError:
        return 1


def load_findings():
    p = os.path.join(VERIF, "known_findings.json")
    if not os.path.exists(p):
        return {"open": [], "fixed": []}
    return json.load(open(p))


def write_evidence(pid, tier, level, coverage, assumptions, wall_s, violations):
    os.makedirs(EVIDENCE, exist_ok=True)
    ev = {"property_id": pid, "tier": tier, "seed": seed(), "level": level, "coverage": coverage,
          "assumptions": assumptions, "wall_s": round(wall_s, 2), "violations": violations}
    tmp = os.path.join(EVIDENCE, pid + ".json.tmp")
    with open(tmp, "w") as f:
        json.dump(ev, f, indent=1, sort_keys=True)
        f.write("\n")
    os.replace(tmp, os.path.join(EVIDENCE, pid + ".json"))


def write_replay(pid, name, payload):
    d = os.path.join(REPLAYS, pid)
    os.makedirs(d, exist_ok=True)
    p = os.path.join(d, name)
    with open(p, "w") as f:
        if isinstance(payload, str):
            f.write(payload)
        else:
            json.dump(payload, f, indent=1)
            f.write("\n")
    return p


def log(*a):
    print(*a, file=sys.stderr, flush=True)
