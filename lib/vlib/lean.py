"""Lean side: build the project (models, theorems, regenerated facts, tie obligations), audit axioms."""
import json, os, re, time
from . import common as C

ALLOWED_AXIOMS = {"propext", "Classical.choice", "Quot.sound"}
FORBIDDEN = re.compile(r"\b(sorry|admit|native_decide|bv_decide|implemented_by|unsafe |maxHeartbeats 0)\b|^axiom ", re.M)


def theorems_table():
    return json.load(open(os.path.join(C.VERIF, "theorems.json")))


def strip_comments(src):
    # remove /- ... -/ (nested not handled beyond one level; our sources do not nest) and -- comments
    out = re.sub(r"/-.*?-/", "", src, flags=re.S)
    out = re.sub(r"--[^\n]*", "", out)
    return out


def grep_forbidden():
    hits = []
    for d, dirs, files in os.walk(C.LEAN):
        dirs[:] = [x for x in dirs if x != ".lake"]
        for f in files:
            if f.endswith(".lean"):
                p = os.path.join(d, f)
                m = FORBIDDEN.search(strip_comments(open(p).read()))
                if m:
                    hits.append("%s: %s" % (os.path.relpath(p, C.LEAN), m.group(0).strip()))
    return hits


def build_and_audit():
    """Returns dict: theorem name -> {'ok': bool, 'axioms': [...]}; builds everything first.
    Cached by the hash of the lean sources (which include the regenerated Extracted/*.lean)."""
    with C.locked("lean"):
        key = C.tree_hash(C.LEAN) + "-" + C.tree_hash(C.VERIF, ["theorems.json"])
        stamp = os.path.join(C.cache_dir("lean"), key + ".json")
        if os.path.exists(stamp):
            return json.load(open(stamp))
        t0 = time.time()
        hits = grep_forbidden()
        if hits:
            raise C.Infra("forbidden construct in Lean sources: " + "; ".join(hits))
        p = C.sh(["lake", "build"], cwd=C.LEAN, check=False, timeout=3600)
        build_ok = p.returncode == 0
        failed_modules = re.findall(r"^✖ \[\d+/\d+\] Building (\S+)", p.stdout or "", re.M)
        if not build_ok:
            bad = [m for m in failed_modules if not (m.startswith("CffVerif.Tie") or m.startswith("CffVerif.Extracted"))]
            if bad or not failed_modules:
                raise C.Infra("lake build failed in hand-written modules %s:\n%s" % (bad, (p.stdout or "")[-6000:]))
        tbl = theorems_table()
        names = sorted({n for v in tbl.values() for n in v.get("theorems", [])})
        audit = "import CffVerif\n" + "".join("#print axioms %s\n" % n for n in names)
        ap = os.path.join(C.LEAN, "Audit.lean")
        with open(ap, "w") as f:
            f.write(audit)
        res = {"_build_ok": build_ok, "_failed_modules": failed_modules, "theorems": {}, "_wall_s": 0}
        if build_ok:
            q = C.sh(["lake", "env", "lean", "Audit.lean"], cwd=C.LEAN, check=False, timeout=1800)
            out = q.stdout or ""
            for n in names:
                m = re.search(r"'%s' depends on axioms: \[([^\]]*)\]" % re.escape(n), out, re.S)
                if m:
                    ax = [a.strip() for a in m.group(1).replace("\n", " ").split(",") if a.strip()]
                    res["theorems"][n] = {"ok": set(ax) <= ALLOWED_AXIOMS, "axioms": ax}
                elif re.search(r"'%s' does not depend on any axioms" % re.escape(n), out):
                    res["theorems"][n] = {"ok": True, "axioms": []}
                else:
                    res["theorems"][n] = {"ok": False, "axioms": ["<missing>"]}
            missing = [n for n, v in res["theorems"].items() if not v["ok"]]
            if missing:
                raise C.Infra("audit failed for %s\n%s" % (missing, out[-3000:]))
        res["_wall_s"] = round(time.time() - t0, 1)
        with open(stamp, "w") as f:
            json.dump(res, f)
        return res


def driver_path():
    p = os.path.join(C.LEAN, ".lake", "build", "bin", "driver")
    if not os.path.exists(p):
        raise C.Infra("driver not built")
    return p
