"""Lean side: build the project (models, theorems, regenerated facts, tie obligations), audit axioms."""
import json, os, re, time
from . import common as C

ALLOWED_AXIOMS = {"propext", "Classical.choice", "Quot.sound"}
FORBIDDEN = re.compile(r"\b(sorry|admit|native_decide|bv_decide|implemented_by|unsafe |maxHeartbeats 0)\b|^axiom ", re.M)


def theorems_table():
    return json.load(open(os.path.join(C.VERIF, "theorems.json")))


def strip_comments(src):
    # remove /- ... -/ (nested not handled beyond one level; our sources do not nest) and -- comments
    out = re.sub(r"/-.*?-/", "", src, flags=re.S)
    out = re.sub(r"--[^\n]*", "", out)
    return out


def grep_forbidden():
    hits = []
    for d, dirs, files in os.walk(C.LEAN):
        dirs[:] = [x for x in dirs if x != ".lake"]
        for f in files:
            if f.endswith(".lean"):
                p = os.path.join(d, f)
                m = FORBIDDEN.search(strip_comments(open(p).read()))
                if m:
                    hits.append("%s: %s" % (os.path.relpath(p, C.LEAN), m.group(0).strip()))
    return hits


def build_and_audit():
    """Returns dict: theorem name -> {'ok': bool, 'axioms': [...]}; builds everything first.
    Cached by the hash of the lean sources (which include the regenerated Extracted/*.lean)."""
    with C.locked("lean"):
        key = C.tree_hash(C.LEAN) + "-" + C.tree_hash(C.VERIF, ["theorems.json"])
        stamp = os.path.join(C.cache_dir("lean"), key + ".json")
        if os.path.exists(stamp):
            return json.load(open(stamp))
        t0 = time.time()
        hits = grep_forbidden()
        if hits:
            raise C.Infra("forbidden construct in Lean sources: " + "; ".join(hits))
        p = C.sh(["lake", "build"], cwd=C.LEAN, check=False, timeout=3600)
        build_ok = p.returncode == 0
        failed_modules = re.findall(r"^✖ \[\d+/\d+\] Building (\S+)", p.stdout or "", re.M)
        if not build_ok:
            bad = [m for m in failed_modules if not (m.startswith("CffVerif.Tie") or m.startswith("CffVerif.Extracted"))]
            if bad or not failed_modules:
                raise C.Infra("lake build failed in hand-written modules %s:\n%s" % (bad, (p.stdout or "")[-6000:]))
        tbl = theorems_table()
        names = sorted({n for v in tbl.values() for n in v.get("theorems", [])})
        audit = "import CffVerif\n" + "".join("#print axioms %s\n" % n for n in names)
        ap = os.path.join(C.LEAN, "Audit.lean")
        with open(ap, "w") as f:
            f.write(audit)
        res = {"_build_ok": build_ok, "_failed_modules": failed_modules, "theorems": {}, "_wall_s": 0}
        if build_ok:
            q = C.sh(["lake", "env", "lean", "Audit.lean"], cwd=C.LEAN, check=False, timeout=1800)
            out = q.stdout or ""
            for n in names:
                m = re.search(r"'%s' depends on axioms: \[([^\]]*)\]" % re.escape(n), out, re.S)
                if m:
                    ax = [a.strip() for a in m.group(1).replace("\n", " ").split(",") if a.strip()]
                    res["theorems"][n] = {"ok": set(ax) <= ALLOWED_AXIOMS, "axioms": ax}
                elif re.search(r"'%s' does not depend on any axioms" % re.escape(n), out):
                    res["theorems"][n] = {"ok": True, "axioms": []}
                else:
                    res["theorems"][n] = {"ok": False, "axioms": ["<missing>"]}
            missing = [n for n, v in res["theorems"].items() if not v["ok"]]
            if missing:
                raise C.Infra("audit failed for %s\n%s" % (missing, out[-3000:]))
        res["_wall_s"] = round(time.time() - t0, 1)
        with open(stamp, "w") as f:
            json.dump(res, f)
        return res


RECHECK_MODULES = ["CffVerif.Properties2", "CffVerif.Gen.ParCompose", "CffVerif.Gen.Modifier", "CffVerif.Gen.OrderInv",
                   "CffVerif.Gen.DepsThms", "CffVerif.Sched.WorkCons"]


def leanchecker_status():
    """Thorough tier: the compiled .olean files of the property modules (and, transitively, everything they
    import) are re-checked by leanchecker, the toolchain's independent re-checker. Cached per Lean source hash."""
    build_and_audit()
    with C.locked("lean"):
        key = C.tree_hash(C.LEAN)
        stamp = os.path.join(C.cache_dir("lean"), "leanchecker-" + key + ".json")
        if os.path.exists(stamp):
            return json.load(open(stamp))
        t0 = time.time()
        p = C.sh(["lake", "env", "leanchecker"] + RECHECK_MODULES, cwd=C.LEAN, check=False, timeout=3600)
        res = {"ok": p.returncode == 0, "modules": RECHECK_MODULES, "output": (p.stdout or "")[-1500:], "wall_s": round(time.time() - t0, 1)}
        if not res["ok"]:
            raise C.Infra("leanchecker rejected the compiled project:\n" + res["output"])
        json.dump(res, open(stamp, "w"))
        return res


def _theorem_at(lines, ln):
    """Name of the theorem whose statement/proof contains (1-based) line ln."""
    name = None
    for i, l in enumerate(lines[:ln], 1):
        m = re.match(r"theorem\s+(\S+)", l)
        if m:
            name = m.group(1)
    return name


def tie_status():
    """Regenerates CffVerif/Extracted/Facts.lean from /repo's working tree with harness/cmd/extract and
    re-checks the obligations of CffVerif/Tie/Facts.lean.  Returns
    {'obligations': {name: {'ok': bool, 'props': [...]}}, 'extract_summary': str, 'files_read': n}.
    An obligation that no longer builds is not an infrastructure error: it is reported by the
    properties that list it."""
    import hashlib, shutil
    with C.locked("tie"):
        tree = C.tree_hash()
        d = C.cache_dir("tree-" + tree)
        js = os.path.join(d, "tie.json")
        if os.path.exists(js):
            return json.load(open(js))
        t0 = time.time()
        exe = os.path.join(d, "extract")
        with C.locked("harness"):
            if not os.path.exists(exe):
                shutil.copy(os.path.join(C.REPO, "go.sum"), os.path.join(C.HARNESS, "go.sum"))
                p = C.sh(["go", "build", "-o", exe, "./cmd/extract"], cwd=C.HARNESS, env=C.GOENV, check=False, timeout=900)
                if p.returncode != 0:
                    raise C.Infra("building cmd/extract failed:\n" + (p.stdout or "")[-3000:])
        outdir = os.path.join(C.LEAN, "CffVerif", "Extracted")
        facts = os.path.join(outdir, "Facts.lean")
        if os.path.exists(facts):
            os.remove(facts)       # never check a stale file
        q = C.sh([exe, "-repo", C.REPO, "-out", outdir], env=C.GOENV, check=False, timeout=300)
        tie_src = os.path.join(C.LEAN, "CffVerif", "Tie", "Facts.lean")
        lines = open(tie_src).read().split("\n")
        names, props, doc = [], {}, ""
        for l in lines:
            if l.startswith("/--"):
                doc = l
            m = re.match(r"theorem\s+(\S+)", l)
            if m:
                names.append(m.group(1))
                pm = re.search(r"\*\*((?:C\d\d ?)+)", doc)
                props[m.group(1)] = pm.group(1).split() if pm else []
                doc = ""
        res = {"obligations": {}, "extract_summary": (q.stdout or "").strip()[-600:], "extract_exit": q.returncode}
        failed = set()
        if q.returncode != 0 or not os.path.exists(facts):
            failed = set(names)        # nothing extracted: no obligation is shown
            res["build_output"] = "extractor failed"
        else:
            with C.locked("lean"):
                b = C.sh(["lake", "build", "CffVerif.Tie.Facts"], cwd=C.LEAN, check=False, timeout=1800)
            out = b.stdout or ""
            if b.returncode != 0:
                hit = False
                for m in re.finditer(r"error: \S*Tie/Facts\.lean:(\d+):\d+", out):
                    n = _theorem_at(lines, int(m.group(1)))
                    if n:
                        failed.add(n); hit = True
                if re.search(r"error: \S*Extracted/Facts\.lean:\d+:\d+", out) or not hit:
                    failed = set(names)    # the regenerated facts do not even elaborate
                res["build_output"] = out[-3000:]
        for n in names:
            res["obligations"][n] = {"ok": n not in failed, "props": props[n]}
        m = re.search(r"filesRead=(\d+)", res["extract_summary"])
        res["files_read"] = int(m.group(1)) if m else 0
        res["wall_s"] = round(time.time() - t0, 1)
        with open(js, "w") as f:
            json.dump(res, f)
        return res


def tie_for(pid):
    """(names, failed names) of the tie obligations property pid lists."""
    st = tie_status()
    mine = [n for n, v in st["obligations"].items() if pid in v["props"]]
    bad = [n for n in mine if not st["obligations"][n]["ok"]]
    return mine, bad, st


def driver_path():
    p = os.path.join(C.LEAN, ".lake", "build", "bin", "driver")
    if not os.path.exists(p):
        raise C.Infra("driver not built")
    return p
